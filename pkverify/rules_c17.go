package main

import (
	"fmt"
	"go/constant"
	"go/token"
	"go/types"
	"regexp/syntax"
	"sort"
	"strings"

	"golang.org/x/tools/go/ssa"
)

func init() {
	register(&PropSpec{
		ID:    "C17",
		Title: "Without credentials, blobs are reachable only through a valid share chain; every other endpoint requires auth",
		Explanation: "Decided (structural necessary conditions, all computed from go/ssa + types of the current tree): " +
			"EFFECTIVE BODY — H-gate, H-links and the handler-function clause of H-auth analyse an anchor function together with, transitively (depth 5), the unexported same-package functions/methods and function literals it calls statically (one frame per call site; a parameter of a helper stands for the caller's argument, a result of the call for the helper's returned values; go/defer calls and exported functions stay opaque). A validation predicate evaluated inside a helper counts for the handler only through a result of the helper (bool, or the trailing error) that reports the verdict faithfully: from every bad edge of the helper's own test only returns carrying the bad verdict (a constant, a provably non-nil error, or the predicate's value itself) are reachable, and — per chain-position scenario — no return carrying a good or unknown verdict is reachable from the helper's entry without crossing the test's good edge; the caller's tests of that result are then treated as tests of the predicate (recursively). A helper that computes the predicate but drops, inverts or short-cuts the verdict, or a caller that ignores the helper's result, therefore violates the predicate's obligation. " +
			"H-gate — in (*shareHandler).handleGetViaSharing (effective body) every call that receives the http.ResponseWriter (other than rw.Header()) is a content emitter; each emitter lies after normal exhaustion of the chain loop (dominated by the loop's range-exhausted edge, no other way out of the loop), serves exactly the requested blobRef parameter, and any emitter other than the single-blob gethandler.ServeBlobRef additionally sits under the fact isTransitive==true; " +
			"for every validation predicate (share not deleted in the index, share fetch ok, size bound, AsShare ok, not expired, hop 1 equals the share target, transitive when the chain is longer than 2, intermediate fetch ok, bytesHaveSchemaLink(cur, bytes-of-cur, next) true, assemble only when transitive) no emitter is reachable from the predicate's bad edge, the predicate is evaluated on the right values (current chain element, the share parsed from that element's bytes, chain[1] / chain[i+1]) and, under each chain-position scenario (first element of a chain of length 1, 2, long; middle element), every path through one loop iteration crosses the predicate's good edge; non-GET requests return before any fetch or emitter; ServeHTTP/serveHTTP hand the ResponseWriter only to handleGetViaSharing or to the 400/401 error senders. " +
			"H-links — every exported blob.Ref-carrying accessor of *schema.Blob is classified (tree link or not, one reason each); each tree-link accessor (ByteParts incl. every blob.Ref field of BytesPart, DirectoryEntries, StaticSetMembers, StaticSetMergeSets) is called in bytesHaveSchemaLink on the parsed blob, reachable for each camliType it applies to, and its result is compared for equality with the target parameter with the comparison deciding the return value; every possibly-true return is guarded by such a comparison (no text search can say yes). " +
			"H-auth — (i) every handler type registered with blobserver.RegisterHandlerConstructor is either answered true by handlerTypeWantsAuth (evaluated on the constant) or is a reasoned exception re-checked structurally (share: H-gate; root: serveDiscovery only under auth.Allowed); (ii) every blob-protocol handler constructor (handlers.Create*Handler, gethandler.CreateGetHandler) is called only where its result flows into auth.RequireAuth and nowhere else, and every Operation handed to RequireAuth is a non-zero constant (a zero Operation is allowed to everybody); (iii) every handler registration (HandlerInstaller.Handle, ServeMux/webserver Handle/HandleFunc) in the server packages installs an always-refusing handler, an auth.RequireAuth value, an auth.Handler wrap, a handler function (literal, declared function or bound method value; followed through the unexported same-package helpers that receive its ResponseWriter) all of whose response paths go through RequireAuth, or a bare handler only on the edge where handlerTypeWantsAuth(h.htype) is false for the same htype given to CreateHandler; (iv) auth.Handler / RequireAuth call the inner handler only under Allowed(sameRequest, op)==true, Allowed says yes only under AllowedWithAuth(mode, req, op)==true, and AllowedWithAuth returns (AllowedAccess(req) & mask) == mask with mask derived from op. " +
			"H-secret — for every declared AllowedAccess of every auth.AuthMode implementation, and (per call site, operands translated to the caller) every module function with a single bool or integer (Operation) result that feeds its decision, each branch condition is split into atoms; an atom is a credential comparison when it is an equality test (==, !=, bytes.Equal, hmac.Equal, EqualFold, ConstantTimeCompare/Compare tested against an int constant, HasPrefix/HasSuffix/Contains) with exactly one operand derived from the *http.Request and a non-constant other operand (the secret). The comparison is strong when the secret — or, for plain equality, the request operand — is provably non-empty where it is compared: a dominating non-empty check (!= \"\", len, Contains of a non-empty constant), a non-empty constant or concatenation with one, the result of a module function all of whose returns are non-empty, a package variable every assignment of which (whole package / whole module for exported ones; address never taken) stores a non-empty value that for run-time assignments derives from crypto/rand (buffer of positive constant length filled by crypto/rand.Read / io.ReadFull(rand.Reader), rendered by Sprintf/hex/base64) AND whose read is preceded on every path by an initialisation (package initialiser, an assignment, or sync.Once.Do / a call of a function every return of which lies behind such an assignment, the Once not being consumed by any other function), or a struct field every assignment of which in the module stores a non-empty value and which no creation of the struct leaves unset. For a CONFIGURED secret (a field of the auth mode: the operator's choice, possibly empty) the comparison is also strong when the request-side operand is proven present in the request on that path: a result of (*http.Request).BasicAuth under ok==true, a result of a module parser of the request under err==nil where every nil-error return of that parser lies behind a non-empty check of the header it reads (httputil.BasicAuth), or a submatch of a request value against an init-time regexp.MustCompile(constant) whose shortest match is non-empty, under a length check of the match — a request without credentials then cannot reach the success edge; an operand that merely reads as \"\" when the field is absent (Header.Get, FormValue without presence check) does not qualify. A direct read of a lazily minted package variable outside such an accessor is therefore weak (\"secret may still be empty\"). Each AllowedAccess is then executed over every assignment of its free and weak atoms with all strong comparisons failing: a grant (non-zero Operation) that disappears when the weak comparisons are made to fail as well is reported with the minimal set of possibly-empty secrets that alone authorise the request. " +
			"NOT decided: helper-crossing is limited to static calls of unexported same-package functions and literals called directly: a chain loop moved as a whole into a helper, an emitter inside a deferred/stored literal, a verdict handed over through a struct field, channel or captured variable instead of a result, and the Allowed/AllowedWithAuth/RequireAuth wrapper bodies of pkg/auth split into further helpers beyond the existing serveHTTPForOp shape are reported undecided/violated rather than followed; that the predicates compute the right thing on every input (schema parsing, expiry arithmetic, index deletion state, hash of fetched bytes); completeness (every valid chain is served) beyond the link-kind agreement; inside each auth mode only the non-emptiness/initialisation of the compared secrets and the presence of the request-side credential are decided (H-secret; an empty configured password that the request must literally present is a configuration hazard, not a violation), not that the right request field is compared with the right secret, that the encoding of a non-empty random buffer is non-empty for exotic format verbs, that crypto/rand cannot fail (a panic inside the Once leaves the variable empty), nor zero values created by reflection/decoding; a module callee that contains a comparison against a package-level string or an auth-mode field but is not followed (several results, dynamic call) is reported undecided; app handlers' own auth (separate processes behind pkg/server/app); what authenticated handlers do after the wrapper; timing side channels; runtime configuration generation.",
		RuleDocs: map[string]string{
			"H-gate":   "handleGetViaSharing and the unexported pkg/server helpers/literals it calls (effective body; helper verdicts must be reported faithfully through a bool/error result): emitters (calls receiving the ResponseWriter) x validation predicates: loop-exit dominance, bad-edge unreachability, per-scenario must-cross of the good edge, value relations; method gate; entry points hand rw only to the gate or error senders",
			"H-links":  "bytesHaveSchemaLink (with the unexported helpers it calls: a helper's bool verdict is a link condition when every yes-answer of the helper is one) honours exactly the tree-link accessors of schema.Blob: each called, type-reachable, compared with target, decisive; every possibly-true return guarded by such a comparison; accessor classification exhaustive",
			"H-secret": "auth modes: every equality test of request data against a non-constant secret reachable from an AllowedAccess; the secret (or the request operand) must be provably non-empty — or, for a configured field of the mode, the request operand provably present (successful parse of a credential header) — and, for package variables, initialised before the read (Once-guarded accessor, not the raw variable); exhaustive evaluation of each AllowedAccess shows no grant rests only on possibly-empty secrets",
			"H-auth":   "registered handler types vs. handlerTypeWantsAuth (+2 re-checked exceptions); blob-protocol handler constructors flow only into RequireAuth with non-zero op; every Handle registration classified; auth wrappers call through only under Allowed==true",
		},
		Run:       runC17,
		DesignRef: "DESIGN.md §4 C17",
		Technique: "static analysis: dominance and edge-reachability over go/ssa with scenario-pruned path exploration, carried across calls of same-package helpers by per-call-site frames (argument/parameter and result/return binding) and verdict-faithfulness summaries of helper results, value dependence, who-may-call and table agreement (handler types, link accessors); for H-secret interprocedural (call-site sensitive) value derivation of compared operands, dominance of initialisation over reads, module-wide writer sets of package variables and struct fields, and exhaustive boolean evaluation of the auth modes' decision functions",
		LevelText: "Decides structural necessary conditions only: nothing is written to an unauthenticated share response except after the whole via-chain passed every validation predicate on the right values; the link check honours exactly the schema tree links; every registered handler type and every installed endpoint of the server packages is behind an auth wrapper (or is the share/root exception, re-checked), and the wrappers call through only when Allowed said yes; inside the auth modes no grant depends only on comparisons against a secret that may be empty or not yet minted (a request carrying nothing would pass them). Does not decide that the predicates, the auth modes' choice of fields or the schema parser are correct on all inputs, nor app-side auth.",
	})
}

func runC17(p *Program, r *Reporter) {
	a := c17NewAuth(p, r)
	c17RuleGate(p, r, a)
	c17RuleLinks(p, r)
	c17RuleAuth(a)
	c17RuleSecret(p, r)
}

// ---------------------------------------------------------------------------
// general helpers (c17-prefixed; candidates for helpers.go)

// c17DependsOn is DependsOn that also follows values stored into in-memory
// aggregates (varargs arrays, composite literals, struct locals) through
// their field/index addresses, and captured variables.
func c17DependsOn(v ssa.Value, target func(ssa.Value) bool) bool {
	seen := map[ssa.Value]bool{}
	var walk func(v ssa.Value, d int) bool
	walk = func(v ssa.Value, d int) bool {
		if v == nil || seen[v] || d > 120 {
			return false
		}
		seen[v] = true
		if target(v) {
			return true
		}
		switch x := v.(type) {
		case *ssa.UnOp:
			if x.Op == token.MUL {
				if cell, ok := varOf(x.X); ok {
					if al, isAlloc := cell.(*ssa.Alloc); isAlloc {
						if walk(al, d+1) {
							return true
						}
					}
				}
			}
		case *ssa.Alloc:
			for _, st := range storesTo(x) {
				if walk(st.Val, d+1) {
					return true
				}
			}
			if refs := x.Referrers(); refs != nil {
				for _, ref := range *refs {
					var sub ssa.Value
					switch a := ref.(type) {
					case *ssa.FieldAddr:
						sub = a
					case *ssa.IndexAddr:
						sub = a
					}
					if sub == nil || sub.Referrers() == nil {
						continue
					}
					for _, rr := range *sub.Referrers() {
						if st, ok := rr.(*ssa.Store); ok && st.Addr == sub {
							if walk(st.Val, d+1) {
								return true
							}
						}
					}
				}
			}
		case *ssa.FreeVar:
			if b := bindingOf(x); b != nil && walk(b, d+1) {
				return true
			}
		}
		if in, ok := v.(ssa.Instruction); ok {
			for _, op := range in.Operands(nil) {
				if *op != nil && walk(*op, d+1) {
					return true
				}
			}
		}
		return false
	}
	return walk(v, 0)
}

// c17IsGenericStatic matches a call of (an instantiation of) the generic
// package-level function pkgPath.name.
func c17IsGenericStatic(c CallSite, pkgPath, name string) bool {
	f := c.Callee()
	if f == nil {
		return false
	}
	if o := f.Origin(); o != nil {
		f = o
	}
	if f.Name() != name || f.Signature.Recv() != nil {
		return false
	}
	var pkg *types.Package
	if f.Pkg != nil {
		pkg = f.Pkg.Pkg
	} else if f.Object() != nil {
		pkg = f.Object().Pkg()
	}
	return pkg != nil && pkg.Path() == pkgPath
}

// c17Method returns the declared (non-synthetic) method name of named type n,
// whether it has a value or a pointer receiver; nil when absent.
func c17Method(p *Program, n *types.Named, name string) *ssa.Function {
	for _, t := range []types.Type{n, types.NewPointer(n)} {
		sel := p.SSA.MethodSets.MethodSet(t).Lookup(n.Obj().Pkg(), name)
		if sel == nil {
			continue
		}
		if f := p.SSA.MethodValue(sel); f != nil && f.Synthetic == "" && f.Blocks != nil {
			return f
		}
	}
	return nil
}

func c17DependsOnValue(v, on ssa.Value) bool {
	return c17DependsOn(v, func(x ssa.Value) bool { return x == on })
}

// c17Params returns fn's parameters whose type is (a pointer to) pkgPath.name.
func c17Params(fn *ssa.Function, pkgPath, name string) []*ssa.Parameter {
	var out []*ssa.Parameter
	for _, prm := range fn.Params {
		if IsNamed(prm.Type(), pkgPath, name) {
			out = append(out, prm)
		}
	}
	return out
}

// c17OneParam returns the unique parameter of that type or nil.
func c17OneParam(fn *ssa.Function, pkgPath, name string) *ssa.Parameter {
	ps := c17Params(fn, pkgPath, name)
	if len(ps) == 1 {
		return ps[0]
	}
	return nil
}

// c17UsesOf lists the call sites (nested literals included) that receive value
// v (matched through sameOrigin, so spilled/captured parameters count) as
// receiver or argument.
func c17UsesOf(fn *ssa.Function, v ssa.Value) []CallSite {
	var out []CallSite
	for _, c := range CallsIn(fn, true) {
		for _, a := range c.Args() {
			if sameOrigin(a, v) {
				out = append(out, c)
				break
			}
		}
	}
	return out
}

func c17StripNot(cond ssa.Value, val bool) (ssa.Value, bool) {
	for {
		u, ok := cond.(*ssa.UnOp)
		if !ok || u.Op != token.NOT {
			return cond, val
		}
		cond, val = u.X, !val
	}
}

// c17EdgeFacts: the branch facts known when control arrives in succ from pred.
func c17EdgeFacts(pred, succ *ssa.BasicBlock) []CondFact {
	facts := append([]CondFact(nil), FactsAt(pred)...)
	if n := len(pred.Instrs); n > 0 {
		if ifi, ok := pred.Instrs[n-1].(*ssa.If); ok && len(pred.Succs) == 2 && pred.Succs[0] != pred.Succs[1] {
			if pred.Succs[0] == succ {
				facts = append(facts, CondFact{ifi.Cond, true, pred})
			} else if pred.Succs[1] == succ {
				facts = append(facts, CondFact{ifi.Cond, false, pred})
			}
		}
	}
	return facts
}

// c17BoolCallIn looks for a fact about the boolean result of a call satisfying pred.
func c17BoolCallIn(facts []CondFact, pred func(CallSite) bool) (known, val bool, call CallSite) {
	for _, f := range facts {
		cond, v := c17StripNot(f.Cond, f.Val)
		if c, ok := originValue(cond).(*ssa.Call); ok {
			cs := CallSite{c.Parent(), c}
			if pred(cs) {
				return true, v, cs
			}
		}
	}
	return false, false, CallSite{}
}

// c17Branch is one If whose condition evaluates a predicate; GoodIdx is the
// successor index (0 = true edge) taken when the predicate has its good value.
type c17Branch struct {
	If      *ssa.If
	GoodIdx int
}

func (b c17Branch) good() *ssa.BasicBlock { return b.If.Block().Succs[b.GoodIdx] }
func (b c17Branch) bad() *ssa.BasicBlock  { return b.If.Block().Succs[1-b.GoodIdx] }

// c17Branches finds the Ifs of fn whose (NOT-stripped) condition matches;
// goodWhenTrue says which value of the stripped condition is the good one.
func c17Branches(fn *ssa.Function, match func(cond ssa.Value) (matched, goodWhenTrue bool)) []c17Branch {
	var out []c17Branch
	for _, b := range fn.Blocks {
		if len(b.Instrs) == 0 || len(b.Succs) != 2 || b.Succs[0] == b.Succs[1] {
			continue
		}
		ifi, ok := b.Instrs[len(b.Instrs)-1].(*ssa.If)
		if !ok {
			continue
		}
		// polarity: condition as written == (stripped == pol)
		stripped, pol := c17StripNot(ifi.Cond, true)
		m, goodTrue := match(stripped)
		if !m {
			continue
		}
		// the true edge is taken when stripped == pol
		goodIdx := 1
		if goodTrue == pol {
			goodIdx = 0
		}
		out = append(out, c17Branch{ifi, goodIdx})
	}
	return out
}

// c17PhiLeaves flattens nested phis.
func c17PhiLeaves(v ssa.Value) []ssa.Value {
	var out []ssa.Value
	seen := map[ssa.Value]bool{}
	var walk func(v ssa.Value)
	walk = func(v ssa.Value) {
		if seen[v] {
			return
		}
		seen[v] = true
		if ph, ok := v.(*ssa.Phi); ok {
			for _, e := range ph.Edges {
				walk(e)
			}
			return
		}
		out = append(out, v)
	}
	walk(v)
	return out
}

// c17Scenario fixes symbolic integers (loop index, chain length) and one
// access path assumed non-nil, so that branch conditions over them can be
// evaluated during path exploration. fr is the frame of the effective body
// whose conditions are evaluated (nil = the root function): parameters of a
// helper stand for the caller's arguments.
type c17Scenario struct {
	Name    string
	Idx     ssa.Value
	IdxVal  int64
	Chain   ssa.Value
	LenVal  int64
	NonNil  string // access path (in the root function) assumed non-nil ("" = none)
	Unknown []string
	fr      *c17GFrame
}

// in returns the scenario for evaluating conditions of frame fr.
func (s *c17Scenario) in(fr *c17GFrame) *c17Scenario {
	if s == nil {
		return nil
	}
	c := *s
	c.fr = fr
	return &c
}

func (s *c17Scenario) intVal(v ssa.Value) (int64, bool) { return s.intValIn(v, s.fr, 0) }

func (s *c17Scenario) intValIn(v ssa.Value, fr *c17GFrame, d int) (int64, bool) {
	if d > 24 || v == nil {
		return 0, false
	}
	if fr != nil {
		v, fr = c17Resolve(v, fr)
	}
	atRoot := fr == nil || fr.parent == nil
	if atRoot && s.Idx != nil && v == s.Idx {
		return s.IdxVal, true
	}
	if n, ok := ConstInt(v); ok {
		return n, true
	}
	switch x := v.(type) {
	case *ssa.Call:
		if b, ok := x.Call.Value.(*ssa.Builtin); ok && b.Name() == "len" && len(x.Call.Args) == 1 && s.Chain != nil {
			a, af := x.Call.Args[0], fr
			if af != nil {
				a, af = c17Resolve(a, af)
			}
			if (af == nil || af.parent == nil) && sameOrigin(a, s.Chain) {
				return s.LenVal, true
			}
		}
	case *ssa.BinOp:
		a, ok1 := s.intValIn(x.X, fr, d+1)
		b, ok2 := s.intValIn(x.Y, fr, d+1)
		if ok1 && ok2 {
			switch x.Op {
			case token.ADD:
				return a + b, true
			case token.SUB:
				return a - b, true
			}
		}
	case *ssa.Convert:
		return s.intValIn(x.X, fr, d+1)
	}
	return 0, false
}

// Eval evaluates a branch condition under the scenario.
func (s *c17Scenario) Eval(cond ssa.Value) (known, val bool) {
	cond, pol := c17StripNot(cond, true)
	bo, ok := cond.(*ssa.BinOp)
	if !ok {
		return false, false
	}
	if a, ok1 := s.intVal(bo.X); ok1 {
		if b, ok2 := s.intVal(bo.Y); ok2 {
			var res bool
			switch bo.Op {
			case token.EQL:
				res = a == b
			case token.NEQ:
				res = a != b
			case token.LSS:
				res = a < b
			case token.LEQ:
				res = a <= b
			case token.GTR:
				res = a > b
			case token.GEQ:
				res = a >= b
			default:
				return false, false
			}
			return true, res == pol
		}
	}
	if s.NonNil != "" && (bo.Op == token.EQL || bo.Op == token.NEQ) {
		var other ssa.Value
		if IsNilConst(bo.Y) {
			other = bo.X
		} else if IsNilConst(bo.X) {
			other = bo.Y
		}
		if other != nil && c17PathUp(AccessPath(other), s.fr) == s.NonNil {
			return true, (bo.Op == token.NEQ) == pol
		}
	}
	return false, false
}

// c17Reach explores forward from start. Edges for which cut returns true are
// not followed; branch conditions the scenario can evaluate are followed only
// on the taken side; blocks in stop are recorded but not expanded.
func c17Reach(start *ssa.BasicBlock, sc *c17Scenario, cut func(from *ssa.BasicBlock, succIdx int) bool, stop map[*ssa.BasicBlock]bool) map[*ssa.BasicBlock]bool {
	seen, _ := c17ReachE(start, sc, cut, stop)
	return seen
}

// c17ReachE is c17Reach that also returns the control-flow edges traversed.
func c17ReachE(start *ssa.BasicBlock, sc *c17Scenario, cut func(from *ssa.BasicBlock, succIdx int) bool, stop map[*ssa.BasicBlock]bool) (map[*ssa.BasicBlock]bool, map[[2]*ssa.BasicBlock]bool) {
	seen := map[*ssa.BasicBlock]bool{}
	edges := map[[2]*ssa.BasicBlock]bool{}
	var walk func(b *ssa.BasicBlock)
	walk = func(b *ssa.BasicBlock) {
		if seen[b] {
			return
		}
		seen[b] = true
		if stop[b] {
			return
		}
		only := -1
		if sc != nil && len(b.Succs) == 2 && len(b.Instrs) > 0 {
			if ifi, ok := b.Instrs[len(b.Instrs)-1].(*ssa.If); ok {
				if k, v := sc.Eval(ifi.Cond); k {
					only = 1
					if v {
						only = 0
					}
				}
			}
		}
		for i, s := range b.Succs {
			if only >= 0 && i != only {
				continue
			}
			if cut != nil && cut(b, i) {
				continue
			}
			edges[[2]*ssa.BasicBlock{b, s}] = true
			walk(s)
		}
	}
	walk(start)
	return seen, edges
}

func c17IsBuiltinLen(v ssa.Value) (arg ssa.Value, ok bool) {
	c, isCall := v.(*ssa.Call)
	if !isCall {
		return nil, false
	}
	if b, isB := c.Call.Value.(*ssa.Builtin); isB && b.Name() == "len" && len(c.Call.Args) == 1 {
		return c.Call.Args[0], true
	}
	return nil, false
}

func c17BlockNames(bs []*ssa.BasicBlock) string {
	var s []string
	for _, b := range bs {
		s = append(s, fmt.Sprintf("%d", b.Index))
	}
	return strings.Join(s, ",")
}

// ---------------------------------------------------------------------------
// effective body: a function plus, transitively, the unexported same-package
// functions/methods and function literals it calls statically. One frame per
// call site; a parameter of a helper stands for the caller's argument, the
// results of the call for the helper's returned values.

type c17GFrame struct {
	fn     *ssa.Function
	call   CallSite // the call in parent.fn (zero value for the root)
	parent *c17GFrame
	depth  int
	kids   map[ssa.CallInstruction]*c17GFrame
}

type c17Body struct {
	root   *c17GFrame
	frames []*c17GFrame // pre-order: every frame after its ancestors
}

// c17FV is a value together with the frame it is evaluated in.
type c17FV struct {
	v  ssa.Value
	fr *c17GFrame
}

// c17Site is a call site of the effective body.
type c17Site struct {
	fr *c17GFrame
	c  CallSite
}

func (s c17Site) ok() bool { return s.c.Instr != nil }

// c17Inlinable: callee is a function literal or an unexported declared
// function/method of root's package with a body. Exported functions are the
// package's API and stay opaque call sites.
func c17Inlinable(root, callee *ssa.Function) bool {
	if callee == nil || len(callee.Blocks) == 0 {
		return false
	}
	top, rtop := TopFunc(callee), TopFunc(root)
	if top.Pkg == nil || top.Pkg != rtop.Pkg {
		return false
	}
	if callee.Parent() != nil {
		return true
	}
	obj := callee.Object()
	return obj != nil && !obj.Exported()
}

func c17EffectiveBody(fn *ssa.Function, opaque func(*ssa.Function) bool) *c17Body {
	b := &c17Body{}
	var build func(f *ssa.Function, call CallSite, parent *c17GFrame, depth int) *c17GFrame
	build = func(f *ssa.Function, call CallSite, parent *c17GFrame, depth int) *c17GFrame {
		fr := &c17GFrame{fn: f, call: call, parent: parent, depth: depth, kids: map[ssa.CallInstruction]*c17GFrame{}}
		b.frames = append(b.frames, fr)
		if depth >= 5 {
			return fr
		}
		for _, c := range CallsIn(f, false) {
			if c.IsGo() || c.IsDefer() || len(b.frames) > 96 {
				continue
			}
			callee := c.Callee()
			if !c17Inlinable(fn, callee) || (opaque != nil && opaque(callee)) {
				continue
			}
			rec := false
			for x := fr; x != nil; x = x.parent {
				if x.fn == callee {
					rec = true
				}
			}
			if rec {
				continue
			}
			fr.kids[c.Instr] = build(callee, c, fr, depth+1)
		}
		return fr
	}
	b.root = build(fn, CallSite{}, nil, 0)
	return b
}

// arg returns the caller-side argument bound to parameter prm of fr.fn.
func (fr *c17GFrame) arg(prm *ssa.Parameter) ssa.Value {
	if fr == nil || fr.parent == nil || prm.Parent() != fr.fn {
		return nil
	}
	args := fr.call.Common().Args
	for i, p := range fr.fn.Params {
		if p == prm && i < len(args) {
			return args[i]
		}
	}
	return nil
}

// frameFor returns fr or its nearest ancestor whose function is f.
func (fr *c17GFrame) frameFor(f *ssa.Function) *c17GFrame {
	for x := fr; x != nil; x = x.parent {
		if x.fn == f {
			return x
		}
	}
	return nil
}

func (fr *c17GFrame) isRoot() bool { return fr != nil && fr.parent == nil }

// chainName renders the call chain of a helper frame for diagnostics.
func (fr *c17GFrame) chainName() string {
	if fr == nil {
		return "?"
	}
	return FuncKey(fr.fn)
}

// c17Adjust moves fr to the ancestor frame that owns v when originValue /
// captured variables led into a lexically enclosing function.
func c17Adjust(v ssa.Value, fr *c17GFrame) *c17GFrame {
	if fr == nil {
		return nil
	}
	var f *ssa.Function
	switch x := v.(type) {
	case *ssa.Parameter:
		f = x.Parent()
	case *ssa.FreeVar:
		f = x.Parent()
	case ssa.Instruction:
		f = x.Parent()
	}
	if f != nil && f != fr.fn {
		if a := fr.frameFor(f); a != nil {
			return a
		}
	}
	return fr
}

// c17Resolve strips value-preserving wrappers and maps parameters of helper
// frames to the caller's arguments, as far up as possible.
func c17Resolve(v ssa.Value, fr *c17GFrame) (ssa.Value, *c17GFrame) {
	for i := 0; i < 16 && v != nil; i++ {
		v = originValue(v)
		fr = c17Adjust(v, fr)
		prm, ok := v.(*ssa.Parameter)
		if !ok {
			return v, fr
		}
		a := fr.arg(prm)
		if a == nil {
			return v, fr
		}
		v, fr = a, fr.parent
	}
	return v, fr
}

// c17PathUp translates an access path of frame fr into the root function by
// substituting parameters with the access paths of the caller's arguments.
func c17PathUp(p string, fr *c17GFrame) string {
	for fr != nil && fr.parent != nil {
		pre := ""
		for len(p) > 0 && (p[0] == '&' || p[0] == '*') {
			pre += p[:1]
			p = p[1:]
		}
		end := strings.IndexAny(p, ".[")
		if end < 0 {
			end = len(p)
		}
		var prm *ssa.Parameter
		for _, q := range fr.fn.Params {
			if q.Name() == p[:end] {
				prm = q
			}
		}
		if prm == nil {
			return pre + p
		}
		a := fr.arg(prm)
		if a == nil {
			return "?untranslatable"
		}
		ap := AccessPath(a)
		if ap == "" || strings.ContainsAny(ap[:1], "?&*") {
			return "?untranslatable"
		}
		p = pre + ap + p[end:]
		fr = fr.parent
	}
	return p
}

// depends is c17DependsOn over the effective body: parameters continue in the
// caller's argument, results of an inlined call in the helper's returned values.
func (b *c17Body) depends(v ssa.Value, fr *c17GFrame, target func(ssa.Value, *c17GFrame) bool) bool {
	seen := map[c17FV]bool{}
	var walk func(v ssa.Value, fr *c17GFrame, d int) bool
	walk = func(v ssa.Value, fr *c17GFrame, d int) bool {
		if v == nil || fr == nil || d > 160 {
			return false
		}
		fr = c17Adjust(v, fr)
		k := c17FV{v, fr}
		if seen[k] {
			return false
		}
		seen[k] = true
		if target(v, fr) {
			return true
		}
		switch x := v.(type) {
		case *ssa.Parameter:
			if a := fr.arg(x); a != nil {
				return walk(a, fr.parent, d+1)
			}
			return false
		case *ssa.UnOp:
			if x.Op == token.MUL {
				if cell, ok := varOf(x.X); ok {
					if al, isAlloc := cell.(*ssa.Alloc); isAlloc {
						if walk(al, fr, d+1) {
							return true
						}
					}
				}
			}
		case *ssa.Alloc:
			for _, st := range storesTo(x) {
				if walk(st.Val, fr, d+1) {
					return true
				}
			}
			if refs := x.Referrers(); refs != nil {
				for _, ref := range *refs {
					var sub ssa.Value
					switch a := ref.(type) {
					case *ssa.FieldAddr:
						sub = a
					case *ssa.IndexAddr:
						sub = a
					}
					if sub == nil || sub.Referrers() == nil {
						continue
					}
					for _, rr := range *sub.Referrers() {
						if st, ok := rr.(*ssa.Store); ok && st.Addr == sub {
							if walk(st.Val, fr, d+1) {
								return true
							}
						}
					}
				}
			}
		case *ssa.FreeVar:
			if bv := bindingOf(x); bv != nil && walk(bv, fr, d+1) {
				return true
			}
		case *ssa.Extract:
			if c, ok := x.Tuple.(*ssa.Call); ok {
				if kid := fr.kids[c]; kid != nil {
					for _, ri := range Returns(kid.fn) {
						if x.Index < len(ri.Results) && walk(ri.Results[x.Index], kid, d+1) {
							return true
						}
					}
					return false
				}
			}
		case *ssa.Call:
			if kid := fr.kids[x]; kid != nil {
				for _, ri := range Returns(kid.fn) {
					for _, rv := range ri.Results {
						if walk(rv, kid, d+1) {
							return true
						}
					}
				}
				return false
			}
		}
		if in, ok := v.(ssa.Instruction); ok {
			for _, op := range in.Operands(nil) {
				if *op != nil && walk(*op, fr, d+1) {
					return true
				}
			}
		}
		return false
	}
	return walk(v, fr, 0)
}

// leaves flattens phis across the effective body: a parameter of a helper is
// replaced by the caller's argument, the result of an inlined call by the
// helper's returned values.
func (b *c17Body) leaves(v ssa.Value, fr *c17GFrame) []c17FV {
	var out []c17FV
	seen := map[c17FV]bool{}
	var walk func(v ssa.Value, fr *c17GFrame, d int)
	walk = func(v ssa.Value, fr *c17GFrame, d int) {
		if v == nil || fr == nil {
			return
		}
		fr = c17Adjust(v, fr)
		k := c17FV{v, fr}
		if seen[k] {
			return
		}
		seen[k] = true
		if d > 40 {
			out = append(out, k)
			return
		}
		switch x := v.(type) {
		case *ssa.Phi:
			for _, e := range x.Edges {
				walk(e, fr, d+1)
			}
			return
		case *ssa.ChangeType:
			walk(x.X, fr, d+1)
			return
		case *ssa.ChangeInterface:
			walk(x.X, fr, d+1)
			return
		case *ssa.Parameter:
			if a := fr.arg(x); a != nil {
				walk(a, fr.parent, d+1)
				return
			}
		case *ssa.UnOp:
			if x.Op == token.MUL {
				if rv := resolveLoad(x); rv != nil {
					walk(rv, fr, d+1)
					return
				}
			}
		case *ssa.Extract:
			if c, ok := x.Tuple.(*ssa.Call); ok {
				if kid := fr.kids[c]; kid != nil {
					for _, ri := range Returns(kid.fn) {
						if x.Index < len(ri.Results) {
							walk(ri.Results[x.Index], kid, d+1)
						}
					}
					return
				}
			}
		case *ssa.Call:
			if kid := fr.kids[x]; kid != nil && x.Call.Signature().Results().Len() == 1 {
				for _, ri := range Returns(kid.fn) {
					if len(ri.Results) == 1 {
						walk(ri.Results[0], kid, d+1)
					}
				}
				return
			}
		}
		out = append(out, k)
	}
	walk(v, fr, 0)
	return out
}

// sites lists the call sites of the effective body that satisfy pred.
func (b *c17Body) sites(pred func(fr *c17GFrame, c CallSite) bool) []c17Site {
	var out []c17Site
	for _, fr := range b.frames {
		for _, c := range CallsIn(fr.fn, false) {
			if pred(fr, c) {
				out = append(out, c17Site{fr, c})
			}
		}
	}
	return out
}

// rootBlock is the block of the root function in which the site executes:
// its own block, or the block of the outermost call leading to its helper.
func (s c17Site) rootBlock() *ssa.BasicBlock {
	blk, fr := s.c.Block(), s.fr
	for fr != nil && fr.parent != nil {
		blk, fr = fr.call.Block(), fr.parent
	}
	return blk
}

// c17PredM recognises the evaluations of one validation predicate: cond
// matches a boolean value (a NOT-stripped branch condition or a returned
// value) and says which truth value is the good one; errv matches the
// predicate's own error value (good = nil).
type c17PredM struct {
	cond func(fr *c17GFrame, cond ssa.Value) (matched, goodWhenTrue bool)
	errv func(fr *c17GFrame, v ssa.Value) bool
}

func c17CombineM(ms []c17PredM) c17PredM {
	return c17PredM{
		cond: func(fr *c17GFrame, cond ssa.Value) (bool, bool) {
			for _, m := range ms {
				if m.cond != nil {
					if ok, g := m.cond(fr, cond); ok {
						return true, g
					}
				}
			}
			return false, false
		},
		errv: func(fr *c17GFrame, v ssa.Value) bool {
			for _, m := range ms {
				if m.errv != nil && m.errv(fr, v) {
					return true
				}
			}
			return false
		},
	}
}

// c17Res: where a predicate decides control flow. rootBrs are the branches of
// the root function: direct tests of the predicate and tests of the verdict of
// helpers that were proven to report it faithfully.
type c17Res struct {
	rootBrs []c17Branch
	byFrame map[*c17GFrame][]c17Branch
	notes   []string
}

type c17RetLeaf struct {
	ret  *ssa.Return
	val  ssa.Value
	from *ssa.BasicBlock // predecessor block for an operand of a phi in the return block; nil otherwise
}

func c17RetLeaves(fn *ssa.Function, j int) []c17RetLeaf {
	var out []c17RetLeaf
	for _, ri := range Returns(fn) {
		if j >= len(ri.Results) {
			continue
		}
		v := ri.Results[j]
		if ph, ok := v.(*ssa.Phi); ok && ph.Block() == ri.Ret.Block() {
			for i, e := range ph.Edges {
				out = append(out, c17RetLeaf{ri.Ret, e, ph.Block().Preds[i]})
			}
			continue
		}
		out = append(out, c17RetLeaf{ri.Ret, v, nil})
	}
	return out
}

// resolve finds the branches deciding predicate pm in every frame of the
// body, bottom-up. A helper frame that tests the predicate (or returns its
// value) contributes to its caller when one of its results reports the
// verdict faithfully:
//   - from every bad edge of the helper's own tests only returns carrying the
//     bad verdict are reachable (bad => reported bad), and
//   - (checkLeaks) under scenario sc no return carrying a good or unknown
//     verdict is reachable from the helper's entry without crossing a good
//     edge (reported good => the test passed).
//
// The caller's tests of that result are then tests of the predicate.
func (b *c17Body) resolve(pm c17PredM, sc *c17Scenario, checkLeaks bool) *c17Res {
	res := &c17Res{byFrame: map[*c17GFrame][]c17Branch{}}
	extra := map[*c17GFrame][]c17PredM{}
	for i := len(b.frames) - 1; i >= 0; i-- {
		fr := b.frames[i]
		m := c17CombineM(append([]c17PredM{pm}, extra[fr]...))
		brs := c17Branches(fr.fn, func(cond ssa.Value) (bool, bool) { return m.cond(fr, cond) })
		res.byFrame[fr] = brs
		if fr.parent == nil {
			res.rootBrs = brs
			continue
		}
		d, note := b.lift(fr, m, brs, sc, checkLeaks)
		if note != "" {
			res.notes = append(res.notes, note)
		}
		if d != nil {
			extra[fr.parent] = append(extra[fr.parent], *d)
		}
	}
	return res
}

func (b *c17Body) lift(fr *c17GFrame, m c17PredM, brs []c17Branch, sc *c17Scenario, checkLeaks bool) (*c17PredM, string) {
	fn := fr.fn
	call := fr.call.Value()
	if call == nil {
		return nil, ""
	}
	results := fn.Signature.Results()
	type cand struct {
		j     int
		isErr bool
		good  bool
	}
	var cands []cand
	if j := ErrResultIndex(fn); j >= 0 {
		cands = append(cands, cand{j, true, true})
	}
	for j := 0; j < results.Len(); j++ {
		if c17IsBool(results.At(j).Type()) {
			cands = append(cands, cand{j, false, true}, cand{j, false, false})
		}
	}
	badReach := map[*ssa.BasicBlock]bool{}
	for _, br := range brs {
		for x := range BlocksFrom(br.bad()) {
			badReach[x] = true
		}
	}
	kind := func(c cand, l c17RetLeaf) byte {
		if c.isErr {
			if IsNilConst(l.val) {
				return 'G'
			}
			if m.errv != nil && m.errv(fr, l.val) {
				return 'I'
			}
			if _, isMI := l.val.(*ssa.MakeInterface); isMI || isNonNilErrorExpr(l.val) {
				return 'B'
			}
			var facts []CondFact
			if l.from != nil {
				facts = c17EdgeFacts(l.from, l.ret.Block())
			} else {
				facts = FactsAt(l.ret.Block())
			}
			for _, f := range facts {
				if k, isNil := condSaysNil(f.Cond, f.Val, l.val); k && !isNil {
					return 'B'
				}
			}
			return 'X'
		}
		if k, ok := l.val.(*ssa.Const); ok && k.Value != nil && k.Value.Kind() == constant.Bool {
			if constant.BoolVal(k.Value) == c.good {
				return 'G'
			}
			return 'B'
		}
		cond, pol := c17StripNot(l.val, true)
		if ok, gwt := m.cond(fr, cond); ok {
			if gwt == (pol == c.good) {
				return 'I'
			}
			return 'X'
		}
		return 'X'
	}
	fromBad := func(l c17RetLeaf) bool {
		rb := l.ret.Block()
		if l.from == nil {
			return badReach[rb]
		}
		if badReach[l.from] {
			return true
		}
		for _, br := range brs {
			if br.If.Block() == l.from && br.bad() == rb {
				return true
			}
		}
		return false
	}
	var seen map[*ssa.BasicBlock]bool
	var edges map[[2]*ssa.BasicBlock]bool
	if checkLeaks {
		cut := func(from *ssa.BasicBlock, i int) bool {
			for _, br := range brs {
				if br.If.Block() == from && br.GoodIdx == i {
					return true
				}
			}
			return false
		}
		seen, edges = c17ReachE(fn.Blocks[0], sc.in(fr), cut, nil)
	}
	why := ""
	for _, c := range cands {
		ls := c17RetLeaves(fn, c.j)
		okBad, canGood, ident := true, false, false
		for _, l := range ls {
			k := kind(c, l)
			if fromBad(l) && k != 'B' {
				okBad = false
			}
			if k == 'G' || k == 'I' {
				canGood = true
			}
			if k == 'I' {
				ident = true
			}
		}
		if !okBad || !canGood || (len(brs) == 0 && !ident) {
			continue
		}
		if checkLeaks {
			leak := ""
			for _, l := range ls {
				k := kind(c, l)
				if k != 'G' && k != 'X' {
					continue
				}
				reach := seen[l.ret.Block()]
				if l.from != nil {
					reach = edges[[2]*ssa.BasicBlock{l.from, l.ret.Block()}]
				}
				if reach {
					leak = fmt.Sprintf("helper %s can report a good verdict (return in block %d) without the check having passed", fr.chainName(), l.ret.Block().Index)
					break
				}
			}
			if leak != "" {
				why = leak
				continue
			}
		}
		parent := fr.parent
		if c.isErr {
			ev, has, discarded := ErrValue(call)
			if !has || discarded || ev == nil {
				return nil, fmt.Sprintf("the error result of helper %s is discarded by its caller", fr.chainName())
			}
			return &c17PredM{
				cond: func(f *c17GFrame, cond ssa.Value) (bool, bool) {
					if f != parent {
						return false, false
					}
					if k, isNil := condSaysNil(cond, true, ev); k {
						return true, isNil
					}
					return false, false
				},
				errv: func(f *c17GFrame, v ssa.Value) bool { return f == parent && sameOrigin(v, ev) },
			}, ""
		}
		rv := ResultValue(call, c.j)
		if rv == nil {
			return nil, fmt.Sprintf("the verdict of helper %s is discarded by its caller", fr.chainName())
		}
		good := c.good
		return &c17PredM{
			cond: func(f *c17GFrame, cond ssa.Value) (bool, bool) {
				if f != parent {
					return false, false
				}
				if cond == rv || originValue(cond) == rv {
					return true, good
				}
				return false, false
			},
		}, ""
	}
	if why == "" && (len(brs) > 0) {
		why = fmt.Sprintf("helper %s tests the predicate but none of its results reports the verdict faithfully (a bad outcome can end in a return that does not say so)", fr.chainName())
	}
	return nil, why
}

// under reports whether a site (block blk of frame fr) executes only after a
// good edge of one of the predicate's branches, in its own frame or at one of
// the calls leading to it.
func (res *c17Res) under(fr *c17GFrame, blk *ssa.BasicBlock) bool {
	for fr != nil {
		for _, f := range FactsAt(blk) {
			for _, br := range res.byFrame[fr] {
				if f.At == br.If.Block() && f.Val == (br.GoodIdx == 0) {
					return true
				}
			}
		}
		if fr.parent == nil {
			break
		}
		blk, fr = fr.call.Block(), fr.parent
	}
	return false
}

// ---------------------------------------------------------------------------
// H-gate

type c17Loop struct {
	Header, Body, Done *ssa.BasicBlock
	Idx, Chain         ssa.Value
	In                 map[*ssa.BasicBlock]bool
}

// c17FindLoop finds the innermost counted loop (`idx < len(chain)`) whose body
// dominates block b.
func c17FindLoop(b *ssa.BasicBlock) *c17Loop {
	for h := b.Idom(); h != nil; h = h.Idom() {
		if len(h.Instrs) == 0 || len(h.Succs) != 2 {
			continue
		}
		ifi, ok := h.Instrs[len(h.Instrs)-1].(*ssa.If)
		if !ok {
			continue
		}
		bo, ok := ifi.Cond.(*ssa.BinOp)
		if !ok {
			continue
		}
		var idx, bound ssa.Value
		switch bo.Op {
		case token.LSS:
			idx, bound = bo.X, bo.Y
		case token.GTR:
			idx, bound = bo.Y, bo.X
		default:
			continue
		}
		chain, isLen := c17IsBuiltinLen(bound)
		if !isLen {
			continue
		}
		body, done := h.Succs[0], h.Succs[1]
		if !(body == b || body.Dominates(b)) {
			continue
		}
		back := false
		for _, pr := range h.Preds {
			if h.Dominates(pr) {
				back = true
			}
		}
		if !back {
			continue
		}
		l := &c17Loop{Header: h, Body: body, Done: done, Idx: idx, Chain: chain, In: map[*ssa.BasicBlock]bool{}}
		for _, x := range h.Parent().Blocks {
			if h.Dominates(x) && BlocksFrom(x)[h] && (x == h || body == x || body.Dominates(x)) {
				l.In[x] = true
			}
		}
		return l
	}
	return nil
}

type c17Gate struct {
	p    *Program
	r    *Reporter
	fn   *ssa.Function
	key  string
	rw   *ssa.Parameter
	req  *ssa.Parameter
	ref  *ssa.Parameter
	lp   *c17Loop
	body *c17Body

	emitters []c17Site
	emitBlk  map[*ssa.BasicBlock]bool
}

// isRoot reports whether v (of frame fr) denotes root-function value rv.
func (g *c17Gate) isRootVal(v ssa.Value, fr *c17GFrame, rv ssa.Value) bool {
	r, f := c17Resolve(v, fr)
	return f != nil && f.isRoot() && sameOrigin(r, rv)
}

// elemIndex: v is a load of chain[index]; returns the index expression and its frame.
func (g *c17Gate) elemIndex(v ssa.Value, fr *c17GFrame) (ssa.Value, *c17GFrame, bool) {
	r, f := c17Resolve(v, fr)
	ld, ok := r.(*ssa.UnOp)
	if !ok || ld.Op != token.MUL || f == nil {
		return nil, nil, false
	}
	ia, ok := ld.X.(*ssa.IndexAddr)
	if !ok || !g.isRootVal(ia.X, f, g.lp.Chain) {
		return nil, nil, false
	}
	return ia.Index, f, true
}

func (g *c17Gate) isIdx(v ssa.Value, fr *c17GFrame) bool {
	r, f := c17Resolve(v, fr)
	return f != nil && f.isRoot() && r == g.lp.Idx
}

// isCur: v is the current chain element chain[idx].
func (g *c17Gate) isCur(v ssa.Value, fr *c17GFrame) bool {
	idx, f, ok := g.elemIndex(v, fr)
	return ok && g.isIdx(idx, f)
}

// isElemAt reports whether v is a load of chain[k] for constant k (next=false)
// or of chain[idx+1] (next=true).
func (g *c17Gate) isElemAt(v ssa.Value, fr *c17GFrame, constIdx int64, next bool) bool {
	idx, f, ok := g.elemIndex(v, fr)
	if !ok {
		return false
	}
	r, rf := c17Resolve(idx, f)
	if n, isC := ConstInt(r); isC {
		return !next && n == constIdx
	}
	if bo, isB := r.(*ssa.BinOp); isB && bo.Op == token.ADD {
		if n, isC := ConstInt(bo.Y); isC && n == 1 && g.isIdx(bo.X, rf) {
			return next
		}
		if n, isC := ConstInt(bo.X); isC && n == 1 && g.isIdx(bo.Y, rf) {
			return next
		}
	}
	return false
}

func (g *c17Gate) scenario(name string, idx, n int64, nonNil string) *c17Scenario {
	return &c17Scenario{Name: name, Idx: g.lp.Idx, IdxVal: idx, Chain: g.lp.Chain, LenVal: n, NonNil: nonNil, fr: g.body.root}
}

// badEdgeReaches returns the emitter blocks reachable from the bad edge of br.
func (g *c17Gate) badEdgeReaches(br c17Branch) []*ssa.BasicBlock {
	var out []*ssa.BasicBlock
	reach := BlocksFrom(br.bad())
	for b := range g.emitBlk {
		if reach[b] {
			out = append(out, b)
		}
	}
	sort.Slice(out, func(i, j int) bool { return out[i].Index < out[j].Index })
	return out
}

// mustCross: under scenario sc, every path through one iteration (from the
// loop body entry to the back edge or out of the loop towards Done) crosses a
// good edge of one of brs.
func (g *c17Gate) mustCross(sc *c17Scenario, brs []c17Branch) (bool, string) {
	cut := func(from *ssa.BasicBlock, i int) bool {
		for _, br := range brs {
			if br.If.Block() == from && br.GoodIdx == i {
				return true
			}
		}
		return false
	}
	stop := map[*ssa.BasicBlock]bool{g.lp.Header: true, g.lp.Done: true}
	for b := range g.emitBlk {
		stop[b] = true
	}
	reach := c17Reach(g.lp.Body, sc.in(g.body.root), cut, stop)
	var hit []*ssa.BasicBlock
	for b := range stop {
		if reach[b] {
			hit = append(hit, b)
		}
	}
	if len(hit) == 0 {
		return true, ""
	}
	sort.Slice(hit, func(i, j int) bool { return hit[i].Index < hit[j].Index })
	return false, fmt.Sprintf("scenario %s (index %d of a chain of %d): the iteration can complete (reach block %s) without crossing the predicate's good edge", sc.Name, sc.IdxVal, sc.LenVal, c17BlockNames(hit))
}

// pred reports one predicate obligation.
type c17Pred struct {
	name      string
	pm        *c17PredM      // recognises the predicate's evaluations in any frame of the effective body
	valueErr  string         // non-empty: predicate evaluated on the wrong values
	scenarios []*c17Scenario // must-cross scenarios (nil = bad-edge rule only)
	site      token.Pos
	missing   string // non-empty: predicate absent
	optional  bool   // absent predicate is fine (bad-edge rule only)
	what      string
}

func (g *c17Gate) report(pd *c17Pred) {
	construct := g.key + "#pred:" + pd.name
	site := g.p.Pos(pd.site)
	if pd.missing != "" {
		if pd.optional {
			g.r.OKTable("H-gate", construct, g.p.Pos(g.fn.Pos()), "predicate not present; it is redundant for the property ("+pd.missing+")")
			return
		}
		g.r.Violation("H-gate", construct, g.p.Pos(g.fn.Pos()), "validation predicate missing: "+pd.missing)
		return
	}
	if pd.valueErr != "" {
		g.r.Violation("H-gate", construct, site, pd.what+": evaluated on the wrong value: "+pd.valueErr)
		return
	}
	var all *c17Res
	if pd.pm != nil {
		all = g.body.resolve(*pd.pm, nil, false)
	}
	if all == nil || len(all.rootBrs) == 0 {
		d := pd.what + ": the predicate's result never decides a branch of the handler (computed but not checked)"
		if all != nil && len(all.notes) > 0 {
			d += "; " + strings.Join(c17Uniq(all.notes), "; ")
		}
		g.r.Violation("H-gate", construct, site, d)
		return
	}
	for _, br := range all.rootBrs {
		if hit := g.badEdgeReaches(br); len(hit) > 0 {
			g.r.Violation("H-gate", construct, g.p.Pos(br.If.Cond.Pos()), fmt.Sprintf("%s: from the bad edge of the check in block %d a content emitter is still reachable (emitter block %s)", pd.what, br.If.Block().Index, c17BlockNames(hit)))
			return
		}
	}
	var done []string
	for _, sc := range pd.scenarios {
		res := g.body.resolve(*pd.pm, sc, true)
		ok, why := g.mustCross(sc, res.rootBrs)
		if !ok {
			if len(res.notes) > 0 {
				why += "; " + strings.Join(c17Uniq(res.notes), "; ")
			}
			g.r.Violation("H-gate", construct, site, pd.what+": "+why)
			return
		}
		done = append(done, sc.Name)
	}
	detail := fmt.Sprintf("%s: %d check(s) in the handler", pd.what, len(all.rootBrs))
	nh := 0
	for fr, brs := range all.byFrame {
		if !fr.isRoot() && len(brs) > 0 {
			nh++
		}
	}
	if nh > 0 {
		detail += fmt.Sprintf(" (verdict reported through %d helper frame(s))", nh)
	}
	detail += "; no emitter reachable from a bad edge"
	if len(done) > 0 {
		detail += "; good edge crossed on every iteration path in scenarios " + strings.Join(done, ",")
	}
	g.r.OK("H-gate", construct, site, detail)
}

// c17BoolCallM: the predicate is result idx of the call at site s.
func c17BoolCallM(s c17Site, idx int, goodVal bool) *c17PredM {
	rv := ResultValue(s.c.Value(), idx)
	if rv == nil {
		return nil
	}
	return &c17PredM{cond: func(fr *c17GFrame, cond ssa.Value) (bool, bool) {
		if fr == s.fr && (cond == rv || originValue(cond) == rv) {
			return true, goodVal
		}
		return false, false
	}}
}

// c17ErrM: the predicate is "the call at site s returned a nil error".
func c17ErrM(s c17Site) *c17PredM {
	ev, has, discarded := ErrValue(s.c.Value())
	if !has || discarded || ev == nil {
		return nil
	}
	return &c17PredM{
		cond: func(fr *c17GFrame, cond ssa.Value) (bool, bool) {
			if fr != s.fr {
				return false, false
			}
			if k, isNil := condSaysNil(cond, true, ev); k {
				return true, isNil
			}
			return false, false
		},
		errv: func(fr *c17GFrame, v ssa.Value) bool { return fr == s.fr && sameOrigin(v, ev) },
	}
}

func c17RuleGate(p *Program, r *Reporter, a *c17Auth) {
	fn := p.Func("pkg/server", "shareHandler", "handleGetViaSharing")
	g := &c17Gate{p: p, r: r, fn: fn, key: FuncKey(fn), emitBlk: map[*ssa.BasicBlock]bool{}}
	site := p.Pos(fn.Pos())
	g.rw = c17OneParam(fn, "net/http", "ResponseWriter")
	g.req = c17OneParam(fn, "net/http", "Request")
	g.ref = c17OneParam(fn, "perkeep.org/pkg/blob", "Ref")
	if g.rw == nil || g.req == nil || g.ref == nil {
		brokenf("anchor unresolved: %s no longer has exactly one ResponseWriter, *Request and blob.Ref parameter", g.key)
	}
	fetcher := p.Iface("pkg/blob", "Fetcher")
	linkFn := p.Func("pkg/server", "", "bytesHaveSchemaLink")
	// the effective body: the gate plus the unexported pkg/server helpers and
	// literals it calls (the link check is a predicate of its own: H-links)
	g.body = c17EffectiveBody(fn, func(f *ssa.Function) bool { return f == linkFn })
	body, root := g.body, g.body.root
	r.Analysed("functions", len(body.frames)+len(fn.AnonFuncs))
	r.Floor("H-gate", 17)

	// --- emitters: every call of the effective body that gets the ResponseWriter, except rw.Header()
	frameFns := map[*ssa.Function]bool{}
	for _, fr := range body.frames {
		frameFns[fr.fn] = true
	}
	nestedEmit := false
	nCalls := 0
	for _, fr := range body.frames {
		for _, c := range CallsIn(fr.fn, true) {
			if c.Fn != fr.fn && frameFns[c.Fn] {
				continue // a called literal: analysed as a frame of its own
			}
			nCalls++
			gets := false
			for _, arg := range c.Args() {
				if g.isRootVal(arg, fr, g.rw) {
					gets = true
				}
			}
			if !gets || (c.Common().IsInvoke() && c.MethodName() == "Header") {
				continue
			}
			if c.Fn != fr.fn {
				nestedEmit = true
				g.emitters = append(g.emitters, c17Site{fr, c})
				continue
			}
			if fr.kids[c.Instr] != nil {
				continue // hands rw to a helper of the effective body: its calls are the emitters
			}
			s := c17Site{fr, c}
			g.emitters = append(g.emitters, s)
			g.emitBlk[s.rootBlock()] = true
		}
	}
	r.Analysed("call_sites", nCalls)
	if len(g.emitters) == 0 {
		r.Violation("H-gate", g.key+"#emitters", site, "no call receives the ResponseWriter: the handler no longer serves anything (anchor moved?)")
		return
	}
	if nestedEmit {
		r.Undecided("H-gate", g.key+"#emitters", site, "the ResponseWriter is used inside a function literal that is not called directly (deferred, spawned or stored); dominance by the chain loop cannot be decided there")
		return
	}

	// --- the chain loop, found from the Fetch calls
	fetches := body.sites(func(fr *c17GFrame, c CallSite) bool {
		return c.Common().IsInvoke() && c.IsMethod("Fetch", fetcher) && c.Value() != nil
	})
	if len(fetches) == 0 {
		r.Violation("H-gate", g.key+"#chain-loop", site, "no blob.Fetcher.Fetch call in the handler: the chain is not validated against stored blobs")
		return
	}
	for _, f := range fetches {
		l := c17FindLoop(f.rootBlock())
		if l == nil {
			r.Undecided("H-gate", g.key+"#chain-loop", p.Pos(f.c.Pos()), "a Fetch call is not inside a counted loop `i < len(chain)` of the handler; the per-hop analysis cannot follow this shape")
			return
		}
		if g.lp != nil && g.lp.Header != l.Header {
			r.Undecided("H-gate", g.key+"#chain-loop", p.Pos(f.c.Pos()), "Fetch calls sit in different loops; the per-hop analysis expects one chain loop")
			return
		}
		g.lp = l
	}
	lp := g.lp
	{
		var why []string
		if !body.depends(lp.Chain, root, func(x ssa.Value, f *c17GFrame) bool { return f.isRoot() && x == ssa.Value(g.ref) }) {
			why = append(why, "the iterated chain does not contain the requested blobRef parameter")
		}
		for _, pr := range lp.Done.Preds {
			if pr != lp.Header {
				why = append(why, fmt.Sprintf("the loop is left early from block %d (break) without exhausting the chain", pr.Index))
			}
		}
		if lp.In[lp.Done] {
			why = append(why, "loop exit block is inside the loop")
		}
		if len(why) > 0 {
			r.Violation("H-gate", g.key+"#chain-loop", p.Pos(lp.Header.Instrs[len(lp.Header.Instrs)-1].Pos()), strings.Join(why, "; "))
		} else {
			r.OK("H-gate", g.key+"#chain-loop", p.Pos(lp.Chain.Pos()), fmt.Sprintf("one counted loop over a chain that includes blobRef; header block %d, left only when the index reaches len(chain) (block %d)", lp.Header.Index, lp.Done.Index))
		}
	}

	// --- predicates (sites anywhere in the effective body)
	static := func(pkg, recv, name string) []c17Site {
		return body.sites(func(fr *c17GFrame, c CallSite) bool { return c.Value() != nil && c.IsStatic(pkg, recv, name) })
	}
	asShare := static("perkeep.org/pkg/schema", "Blob", "AsShare")
	isExpired := static("perkeep.org/pkg/schema", "Share", "IsExpired")
	isTransitive := static("perkeep.org/pkg/schema", "Share", "IsTransitive")
	isDeleted := static("perkeep.org/pkg/index", "Index", "IsDeleted")
	linkCalls := body.sites(func(fr *c17GFrame, c CallSite) bool { return c.Value() != nil && c.Callee() == linkFn })

	// scenarios
	nonNil := ""
	if len(isDeleted) > 0 {
		nonNil = c17PathUp(AccessPath(isDeleted[0].c.Args()[0]), isDeleted[0].fr)
	}
	first1 := g.scenario("first-of-1", 0, 1, nonNil)
	first2 := g.scenario("first-of-2", 0, 2, nonNil)
	first3 := g.scenario("first-of-3", 0, 3, nonNil)
	firstN := g.scenario("first-of-many", 0, 1000, nonNil)
	mid3 := g.scenario("middle-of-3", 1, 3, nonNil)
	midN := g.scenario("middle-of-many", 500, 1000, nonNil)
	firstAll := []*c17Scenario{first1, first2, first3, firstN}

	isVal := func(s c17Site) func(ssa.Value, *c17GFrame) bool {
		return func(x ssa.Value, f *c17GFrame) bool { return f == s.fr && x == ssa.Value(s.c.Value()) }
	}

	// the share value: AsShare on a blob parsed from the bytes fetched for the current element
	var shareCall, shareFetch c17Site
	haveShare := false
	if len(asShare) == 1 {
		shareCall = asShare[0]
		haveShare = true
		for _, f := range fetches {
			if body.depends(shareCall.c.Args()[0], shareCall.fr, isVal(f)) {
				shareFetch = f
			}
		}
	}
	dependsOnShare := func(v ssa.Value, fr *c17GFrame) bool {
		return haveShare && body.depends(v, fr, isVal(shareCall))
	}

	// P: deleted
	{
		pd := &c17Pred{name: "deleted", what: "index says the share claim is deleted", scenarios: firstAll}
		switch {
		case len(isDeleted) == 0:
			pd.missing = "no (*index.Index).IsDeleted call: a deleted share would still be honoured"
		case len(isDeleted) > 1:
			pd.valueErr = "more than one IsDeleted call; expected one, on the first chain element"
			pd.site = isDeleted[1].c.Pos()
		default:
			s := isDeleted[0]
			pd.site = s.c.Pos()
			if !g.isCur(s.c.Args()[1], s.fr) {
				pd.valueErr = "IsDeleted is not asked about the current chain element"
			}
			pd.pm = c17BoolCallM(s, 0, false)
		}
		g.report(pd)
	}
	// P: share fetch error, size
	{
		pd := &c17Pred{name: "share-fetch-err", what: "fetch of the share claim failed", scenarios: firstAll}
		ps := &c17Pred{name: "size", what: "share blob larger than schema.MaxSchemaBlobSize", optional: true}
		if !shareFetch.ok() {
			pd.missing = "no Fetch whose bytes are parsed into the share (AsShare receiver does not depend on a Fetch result)"
			ps.missing = "no share fetch"
			ps.optional = false
		} else {
			pd.site = shareFetch.c.Pos()
			ps.site = shareFetch.c.Pos()
			if !g.isCur(shareFetch.c.Args()[2], shareFetch.fr) {
				pd.valueErr = "the share is not fetched by the current chain element's ref"
			}
			pd.pm = c17ErrM(shareFetch)
			// size predicate: comparison of the fetch's size result with the constant MaxSchemaBlobSize
			maxC, _ := p.Pkg("pkg/schema").Types.Scope().Lookup("MaxSchemaBlobSize").(*types.Const)
			if maxC == nil {
				brokenf("anchor unresolved: schema.MaxSchemaBlobSize")
			}
			maxV, _ := constant.Int64Val(constant.ToInt(maxC.Val()))
			sizeV := ResultValue(shareFetch.c.Value(), 1)
			isSize := func(v ssa.Value, fr *c17GFrame) bool {
				return sizeV != nil && body.depends(v, fr, func(x ssa.Value, f *c17GFrame) bool { return f == shareFetch.fr && x == sizeV })
			}
			ps.pm = &c17PredM{cond: func(fr *c17GFrame, cond ssa.Value) (bool, bool) {
				bo, ok := cond.(*ssa.BinOp)
				if !ok || sizeV == nil {
					return false, false
				}
				x, y := bo.X, bo.Y
				op := bo.Op
				if cv, ok := ConstInt(x); ok && cv == maxV && isSize(y, fr) {
					x, y = y, x // K op size  ==  size op' K
					op = c17FlipOp(op)
				}
				cv, ok := ConstInt(y)
				if !ok || cv != maxV || !isSize(x, fr) {
					return false, false
				}
				switch op {
				case token.GTR, token.GEQ:
					return true, false // true = too large = bad
				case token.LSS, token.LEQ:
					return true, true
				}
				return false, false
			}}
			if all := body.resolve(*ps.pm, nil, false); len(all.rootBrs) == 0 {
				ps.missing = "schema.BlobFromReader/parseSuperset enforces the same bound"
			}
		}
		g.report(pd)
		g.report(ps)
	}
	// P: AsShare ok
	{
		pd := &c17Pred{name: "as-share", what: "first chain element is not a valid share claim", scenarios: firstAll}
		switch {
		case len(asShare) == 0:
			pd.missing = "no (*schema.Blob).AsShare call: the first chain element is not required to be a share claim"
		case len(asShare) > 1:
			pd.valueErr = "more than one AsShare call"
			pd.site = asShare[1].c.Pos()
		default:
			pd.site = shareCall.c.Pos()
			pd.pm = c17BoolCallM(shareCall, 1, true)
		}
		g.report(pd)
	}
	// P: expired
	{
		pd := &c17Pred{name: "expired", what: "share claim is expired", scenarios: firstAll}
		switch {
		case len(isExpired) == 0:
			pd.missing = "no (schema.Share).IsExpired call: expired shares would still be honoured"
		default:
			s := isExpired[0]
			pd.site = s.c.Pos()
			if !dependsOnShare(s.c.Args()[0], s.fr) {
				pd.valueErr = "IsExpired is not asked of the share parsed from the first chain element"
			}
			var ms []c17PredM
			for _, s := range isExpired {
				if m := c17BoolCallM(s, 0, false); m != nil {
					ms = append(ms, *m)
				}
			}
			m := c17CombineM(ms)
			pd.pm = &m
		}
		g.report(pd)
	}
	// P: target equality: comparison of something derived from chain[1]/chain[i+1] with share.Target()
	{
		pd := &c17Pred{name: "target", what: "hop 1 is not the share's target", scenarios: []*c17Scenario{first2, first3, firstN}}
		isTargetOfShare := func(v ssa.Value, fr *c17GFrame) bool {
			return body.depends(v, fr, func(x ssa.Value, f *c17GFrame) bool {
				c, ok := x.(*ssa.Call)
				if !ok {
					return false
				}
				cs := CallSite{c.Parent(), c}
				if !(cs.IsStatic("perkeep.org/pkg/schema", "Claim", "Target") || cs.IsStatic("perkeep.org/pkg/schema", "Share", "Target") || cs.IsStatic("perkeep.org/pkg/schema", "Blob", "ShareTarget")) {
					return false
				}
				return dependsOnShare(c.Call.Args[0], f) || (haveShare && body.depends(c.Call.Args[0], f, func(y ssa.Value, yf *c17GFrame) bool {
					r1, f1 := c17Resolve(shareCall.c.Args()[0], shareCall.fr)
					r2, f2 := c17Resolve(y, yf)
					return f1 == f2 && r1 == r2
				}))
			})
		}
		isHop1 := func(v ssa.Value, fr *c17GFrame) bool {
			return body.depends(v, fr, func(x ssa.Value, f *c17GFrame) bool {
				if _, isLoad := x.(*ssa.UnOp); !isLoad {
					return false
				}
				return g.isElemAt(x, f, 1, false) || g.isElemAt(x, f, 0, true)
			})
		}
		pd.pm = &c17PredM{cond: func(fr *c17GFrame, cond ssa.Value) (bool, bool) {
			bo, ok := cond.(*ssa.BinOp)
			if !ok || (bo.Op != token.EQL && bo.Op != token.NEQ) {
				return false, false
			}
			if (isTargetOfShare(bo.X, fr) && isHop1(bo.Y, fr)) || (isTargetOfShare(bo.Y, fr) && isHop1(bo.X, fr)) {
				return true, bo.Op == token.EQL
			}
			return false, false
		}}
		if all := body.resolve(*pd.pm, nil, false); len(all.rootBrs) == 0 {
			pd.missing = "no comparison between the second chain element and the target of the share parsed from the first decides a branch: any blob could be requested through any share"
			if len(all.notes) > 0 {
				pd.missing += " (" + strings.Join(c17Uniq(all.notes), "; ") + ")"
			}
		} else {
			pd.site = all.rootBrs[0].If.Cond.Pos()
		}
		g.report(pd)
	}
	// P: transitive (in loop: chains longer than 2) and assemble (after loop)
	isTransVal := func(v ssa.Value, fr *c17GFrame) bool {
		// IsTransitive() of the share, or a phi all of whose leaves are that or the constant false
		sawCall := false
		for _, l := range body.leaves(v, fr) {
			if c, ok := l.v.(*ssa.Call); ok {
				cs := CallSite{c.Parent(), c}
				if cs.IsStatic("perkeep.org/pkg/schema", "Share", "IsTransitive") && dependsOnShare(c.Call.Args[0], l.fr) {
					sawCall = true
					continue
				}
				return false
			}
			if k, ok := l.v.(*ssa.Const); ok && k.Value != nil && k.Value.Kind() == constant.Bool && !constant.BoolVal(k.Value) {
				continue
			}
			return false
		}
		return sawCall
	}
	transM := &c17PredM{cond: func(fr *c17GFrame, cond ssa.Value) (bool, bool) {
		if isTransVal(cond, fr) {
			return true, true
		}
		return false, false
	}}
	{
		pd := &c17Pred{name: "transitive", what: "share is not transitive but the chain is longer than share -> target", scenarios: []*c17Scenario{first3, firstN}}
		if len(isTransitive) == 0 {
			pd.missing = "no (schema.Share).IsTransitive call: non-transitive shares would open their whole subtree"
		} else {
			pd.site = isTransitive[0].c.Pos()
			pd.pm = transM
		}
		g.report(pd)
	}
	// P: intermediate hops
	{
		pe := &c17Pred{name: "link-fetch-err", what: "fetch of an intermediate chain element failed", scenarios: []*c17Scenario{mid3, midN}}
		pl := &c17Pred{name: "link", what: "intermediate chain element has no schema link to the next one", scenarios: []*c17Scenario{mid3, midN}}
		switch {
		case len(linkCalls) == 0:
			pl.missing = "bytesHaveSchemaLink is not called: via hops are not checked for a link to the next element"
			pe.missing = "no link check, hence no fetch feeding it"
		default:
			s := linkCalls[0]
			pl.site = s.c.Pos()
			var linkFetch c17Site
			for _, f := range fetches {
				if body.depends(s.c.Args()[1], s.fr, isVal(f)) {
					linkFetch = f
				}
			}
			switch {
			case len(linkCalls) > 1:
				pl.valueErr = "more than one bytesHaveSchemaLink call"
			case !linkFetch.ok():
				pl.valueErr = "the bytes searched for the link are not the bytes fetched in this handler"
			case !g.isCur(linkFetch.c.Args()[2], linkFetch.fr):
				pl.valueErr = "the bytes searched for the link were not fetched by the current chain element's ref"
			case !g.isElemAt(s.c.Args()[2], s.fr, 0, true):
				pl.valueErr = "the link sought is not the next chain element (chain[i+1])"
			case !g.isCur(s.c.Args()[0], s.fr):
				pl.valueErr = "the ref given for the searched blob is not the current chain element"
			}
			pl.pm = c17BoolCallM(s, 0, true)
			if !linkFetch.ok() {
				pe.missing = "no Fetch feeds bytesHaveSchemaLink"
			} else {
				pe.site = linkFetch.c.Pos()
				pe.pm = c17ErrM(linkFetch)
			}
		}
		g.report(pe)
		g.report(pl)
	}

	// --- emitters
	transRes := body.resolve(*transM, nil, true)
	for _, e := range g.emitters {
		construct := g.key + "#emit:" + e.c.CalleeKey()
		es := p.Pos(e.c.Pos())
		var why []string
		rb := e.rootBlock()
		if !(lp.Done == rb || lp.Done.Dominates(rb)) || lp.In[rb] {
			why = append(why, "not dominated by normal exhaustion of the chain loop: the response can be written before every chain element was validated")
		}
		servesRef := false
		for _, arg := range e.c.Args() {
			if g.isRootVal(arg, e.fr, g.ref) {
				servesRef = true
			} else if IsNamed(arg.Type(), "perkeep.org/pkg/blob", "Ref") {
				why = append(why, "serves a blob.Ref other than the requested (validated) blobRef parameter")
			}
		}
		if !servesRef {
			why = append(why, "does not serve the requested blobRef parameter")
		}
		single := e.c.IsStatic("perkeep.org/pkg/blobserver/gethandler", "", "ServeBlobRef")
		if !single && !transRes.under(e.fr, e.c.Block()) {
			why = append(why, "may serve more than the one validated blob (not gethandler.ServeBlobRef) but is not under the fact share.IsTransitive()==true")
		}
		if len(why) > 0 {
			r.Violation("H-gate", construct, es, strings.Join(why, "; "))
			continue
		}
		d := "after exhaustion of the chain loop; serves blobRef"
		if !single {
			d += "; multi-blob emitter under isTransitive==true"
		}
		if !e.fr.isRoot() {
			d += " (in helper " + e.fr.chainName() + ")"
		}
		r.OK("H-gate", construct, es, d)
	}

	// --- method gate
	{
		construct := g.key + "#method-gate"
		getSites := body.sites(func(fr *c17GFrame, c CallSite) bool {
			return c.Value() != nil && c.IsStatic("perkeep.org/internal/httputil", "", "IsGet") && g.isRootVal(c.Args()[0], fr, g.req)
		})
		var ms []c17PredM
		for _, s := range getSites {
			if m := c17BoolCallM(s, 0, true); m != nil {
				ms = append(ms, *m)
			}
		}
		getRes := body.resolve(c17CombineM(ms), nil, true)
		var bad []string
		check := func(what string, s c17Site) {
			if !getRes.under(s.fr, s.c.Block()) {
				bad = append(bad, fmt.Sprintf("%s at %s is not under httputil.IsGet(req)==true", what, p.Pos(s.c.Pos())))
			}
		}
		for _, f := range fetches {
			check("Fetch", f)
		}
		for _, e := range g.emitters {
			check("emitter "+e.c.CalleeKey(), e)
		}
		if len(bad) > 0 {
			bad = append(bad, getRes.notes...)
		}
		r.Check(len(bad) == 0, "H-gate", construct, site, fmt.Sprintf("all %d Fetch calls and %d emitters are dominated by httputil.IsGet(req)==true", len(fetches), len(g.emitters)), strings.Join(bad, "; "))
	}

	// --- entry points: the ResponseWriter goes only to the gate or to error senders
	c17GateEntries(p, r, fn)

	// --- the emitters' other callers are all behind auth
	c17WhoServes(p, r, a, g)
}

// c17WhoServes: "without credentials, blob contents only through the share
// endpoint". For every module function the gate uses as a content emitter,
// walk its static callers upwards; every chain must end in the gate itself or
// in the ServeHTTP of a handler type that is auth-wrapped (registered under a
// type handlerTypeWantsAuth answers true for, or built by a blob-protocol
// constructor whose result flows only into auth.RequireAuth).
func c17WhoServes(p *Program, r *Reporter, a *c17Auth, g *c17Gate) {
	a.tables()
	done := map[*ssa.Function]bool{}
	for _, e := range g.emitters {
		ef := e.c.Callee()
		if ef == nil || !InModule(ef) || done[ef] {
			continue
		}
		done[ef] = true
		construct := g.key + "#who-serves:" + FuncKey(ef)
		var roots, bad, undec []string
		seen := map[*ssa.Function]bool{}
		var up func(f *ssa.Function, depth int)
		up = func(f *ssa.Function, depth int) {
			if seen[f] {
				return
			}
			seen[f] = true
			if depth > 8 {
				undec = append(undec, "caller chain above "+FuncKey(f)+" is deeper than 8")
				return
			}
			if uses := p.FuncValueUses(f); len(uses) > 0 {
				undec = append(undec, FuncKey(f)+" is used as a function value at "+p.Pos(uses[0].Pos()))
			}
			for _, c := range p.StaticCallers(f) {
				top := TopFunc(c.Fn)
				rel := RelPkg(top.Pkg.Pkg)
				if IsTestSupportPkg(rel) || strings.HasPrefix(rel, "app/") || strings.HasPrefix(rel, "cmd/") {
					continue // separate processes / tools, not perkeepd endpoints
				}
				if top == g.fn {
					roots = append(roots, "the gate")
					continue
				}
				if top.Name() == "ServeHTTP" && top.Signature.Recv() != nil && types.Implements(top.Signature.Recv().Type(), a.httpHandler) {
					tn := NamedOf(top.Signature.Recv().Type())
					if typ, ok := a.wrappedConcrete[tn]; ok {
						roots = append(roots, fmt.Sprintf("%s (handler type %q, auth.Handler-wrapped)", FuncKey(top), typ))
						continue
					}
					if ctor, ok := a.protocolConcrete[tn]; ok {
						roots = append(roots, fmt.Sprintf("%s (built by %s, behind auth.RequireAuth)", FuncKey(top), ctor))
						continue
					}
					if site := a.madeInterface(tn); site != "" {
						bad = append(bad, fmt.Sprintf("%s reaches the emitter and %s is used as an http.Handler value (at %s) without being an auth-wrapped handler type", FuncKey(top), tn.Obj().Name(), site))
						continue
					}
				}
				up(top, depth+1)
			}
		}
		up(ef, 0)
		roots = c17Uniq(roots)
		sort.Strings(roots)
		switch {
		case len(bad) > 0:
			r.Violation("H-gate", construct, p.Pos(ef.Pos()), "blob contents can be served without credentials outside the share gate: "+strings.Join(c17Uniq(bad), "; "))
		case len(undec) > 0:
			r.Undecided("H-gate", construct, p.Pos(ef.Pos()), strings.Join(c17Uniq(undec), "; "))
		case len(roots) == 0:
			r.Violation("H-gate", construct, p.Pos(ef.Pos()), "no caller chain found at all (anchor moved?)")
		default:
			r.OK("H-gate", construct, p.Pos(ef.Pos()), "every static caller chain ends in: "+strings.Join(roots, "; "))
		}
	}
}

// c17ErrorSenders are the calls a share entry point may hand the
// ResponseWriter to besides the gate itself.
var c17ErrorSenders = map[string]string{
	"internal/httputil.BadRequestError": "replies 400 with the error text only",
	"pkg/auth.SendUnauthorized":         "replies 401",
}

func c17GateEntries(p *Program, r *Reporter, gate *ssa.Function) {
	recv := NamedOf(gate.Signature.Recv().Type())
	serve := c17Method(p, recv, "ServeHTTP")
	if serve == nil {
		brokenf("anchor unresolved: %s has no ServeHTTP", recv)
	}
	// every function of the package that can reach the gate statically, starting at ServeHTTP
	allowed := map[*ssa.Function]bool{gate: true}
	work := []*ssa.Function{serve}
	seen := map[*ssa.Function]bool{}
	for len(work) > 0 {
		fn := work[0]
		work = work[1:]
		if seen[fn] || fn == gate {
			continue
		}
		seen[fn] = true
		construct := FuncKey(fn) + "#rw-uses"
		rw := c17OneParam(fn, "net/http", "ResponseWriter")
		if rw == nil {
			r.Undecided("H-gate", construct, p.Pos(fn.Pos()), "entry point without a unique ResponseWriter parameter")
			continue
		}
		var bad []string
		n := 0
		for _, c := range c17UsesOf(fn, rw) {
			n++
			callee := c.Callee()
			switch {
			case callee != nil && (allowed[callee] || callee == gate):
			case callee != nil && callee.Pkg == gate.Pkg && callee.Signature.Recv() != nil && NamedOf(callee.Signature.Recv().Type()) == recv:
				work = append(work, callee) // another method of the share handler: checked the same way
			case !c.IsGo() && c17Inlinable(gate, callee) && c17OneParam(callee, "net/http", "ResponseWriter") != nil:
				work = append(work, callee) // unexported pkg/server helper or literal of the entry point's effective body: checked the same way
			case callee != nil && c17ErrorSenders[FuncKeyAny(callee)] != "":
			default:
				bad = append(bad, fmt.Sprintf("%s at %s", c.CalleeKey(), p.Pos(c.Pos())))
			}
		}
		r.Check(len(bad) == 0, "H-gate", construct, p.Pos(fn.Pos()),
			fmt.Sprintf("the ResponseWriter is handed only to share-handler methods leading to the gate or to the 400/401 error senders (%d uses)", n),
			"the unauthenticated share endpoint writes a response outside the gate: "+strings.Join(bad, "; "))
	}
	// who calls the gate: only methods of the share handler
	for _, c := range p.StaticCallers(gate) {
		if !seen[c.Fn] {
			r.Violation("H-gate", FuncKey(c.Fn)+"#calls-gate", p.Pos(c.Pos()), "handleGetViaSharing is called from a function that is not reachable from the share handler's ServeHTTP through ResponseWriter hand-over")
		}
	}
	if uses := p.FuncValueUses(gate); len(uses) > 0 {
		r.Undecided("H-gate", FuncKey(gate)+"#value-uses", p.Pos(uses[0].Pos()), "the gate is used as a function value; its callers cannot be enumerated")
	}
}

// ---------------------------------------------------------------------------
// H-links

// c17RefAccessors classifies every exported, argument-less method of
// *schema.Blob whose result carries a blob.Ref. link=true: an outgoing edge of
// the file/directory tree that a transitive share covers; types = the
// camliTypes for which the accessor can yield refs.
var c17RefAccessors = map[string]struct {
	link   bool
	types  []string
	reason string
}{
	"ByteParts":          {true, []string{"file", "bytes"}, "parts[].blobRef / parts[].bytesRef: content tree of file and bytes schemas"},
	"DirectoryEntries":   {true, []string{"directory"}, "entries: directory -> its static-set"},
	"StaticSetMembers":   {true, []string{"static-set"}, "members: static-set -> children"},
	"StaticSetMergeSets": {true, []string{"static-set"}, "mergeSets: static-set -> sub-sets of a large directory"},
	"BlobRef":            {false, nil, "the blob's own ref, not an outgoing link"},
	"ShareTarget":        {false, nil, "target of a share claim: checked as hop 1 by H-gate pred:target, never followed as a tree link"},
}

// c17CarriesRef: blob.Ref, []blob.Ref, or (slice of / pointer to) a struct with a blob.Ref field.
func c17CarriesRef(t types.Type) bool {
	if IsNamed(t, "perkeep.org/pkg/blob", "Ref") {
		if _, isPtr := t.(*types.Pointer); !isPtr {
			return true
		}
	}
	switch u := t.Underlying().(type) {
	case *types.Slice:
		return c17CarriesRef(u.Elem())
	case *types.Array:
		return c17CarriesRef(u.Elem())
	case *types.Pointer:
		if _, isStruct := u.Elem().Underlying().(*types.Struct); isStruct && !IsNamed(u.Elem(), "perkeep.org/pkg/schema", "Blob") {
			return c17CarriesRef(u.Elem())
		}
	case *types.Struct:
		for i := 0; i < u.NumFields(); i++ {
			if IsNamed(u.Field(i).Type(), "perkeep.org/pkg/blob", "Ref") {
				if _, isPtr := u.Field(i).Type().(*types.Pointer); !isPtr {
					return true
				}
			}
		}
	}
	return false
}

func c17RuleLinks(p *Program, r *Reporter) {
	fn := p.Func("pkg/server", "", "bytesHaveSchemaLink")
	key := FuncKey(fn)
	site := p.Pos(fn.Pos())
	r.Floor("H-links", 9)
	blobT := p.NamedType("pkg/schema", "Blob")
	// the link check's effective body: the function plus the unexported
	// pkg/server helpers and literals it calls
	body := c17EffectiveBody(fn, nil)

	// target: the blob.Ref parameter that is not the searched blob's own ref (the one given to BlobFromReader)
	parse := body.sites(func(fr *c17GFrame, c CallSite) bool {
		return c.IsStatic("perkeep.org/pkg/schema", "", "BlobFromReader") && c.Value() != nil
	})
	if len(parse) != 1 {
		r.Violation("H-links", key+"#parse", site, fmt.Sprintf("expected exactly one schema.BlobFromReader call (the link check must parse the blob, not search its text); found %d", len(parse)))
		return
	}
	ps := parse[0]
	isRootVal := func(v ssa.Value, fr *c17GFrame, rv ssa.Value) bool {
		x, f := c17Resolve(v, fr)
		return f != nil && f.isRoot() && sameOrigin(x, rv)
	}
	var target *ssa.Parameter
	for _, prm := range c17Params(fn, "perkeep.org/pkg/blob", "Ref") {
		if isRootVal(ps.c.Args()[0], ps.fr, prm) {
			continue
		}
		if target != nil {
			brokenf("anchor unresolved: %s has more than one candidate target parameter", key)
		}
		target = prm
	}
	if target == nil {
		brokenf("anchor unresolved: %s has no target blob.Ref parameter", key)
	}
	parsedRaw := ResultValue(ps.c.Value(), 0)
	if parsedRaw == nil {
		r.Violation("H-links", key+"#parse", site, "the parsed *schema.Blob is discarded")
		return
	}
	// isParsed: v is the blob parsed by that call (possibly handed through helper parameters / results)
	isParsed := func(v ssa.Value, fr *c17GFrame) bool {
		saw := false
		for _, l := range body.leaves(v, fr) {
			lv, lf := c17Resolve(l.v, l.fr)
			if IsNilConst(lv) {
				continue
			}
			if lf == ps.fr && lv == parsedRaw {
				saw = true
				continue
			}
			return false
		}
		return saw
	}
	// the parsed bytes are the function's byte-slice parameter
	{
		var bb *ssa.Parameter
		for _, prm := range fn.Params {
			if sl, ok := prm.Type().Underlying().(*types.Slice); ok {
				if b, ok := sl.Elem().(*types.Basic); ok && b.Kind() == types.Byte {
					bb = prm
				}
			}
		}
		ok := bb != nil && body.depends(ps.c.Args()[1], ps.fr, func(x ssa.Value, f *c17GFrame) bool { return f.isRoot() && x == ssa.Value(bb) })
		r.Check(ok, "H-links", key+"#parse", p.Pos(ps.c.Pos()), "the blob is parsed (schema.BlobFromReader) from the byte-slice parameter", "schema.BlobFromReader does not read the bytes parameter")
	}

	// 1. exhaustive classification of Ref-carrying accessors
	var links []string
	ms := p.SSA.MethodSets.MethodSet(types.NewPointer(blobT))
	for i := 0; i < ms.Len(); i++ {
		m := ms.At(i).Obj().(*types.Func)
		if !m.Exported() {
			continue
		}
		sig := m.Type().(*types.Signature)
		if sig.Params().Len() != 0 || sig.Results().Len() == 0 {
			continue
		}
		if !c17CarriesRef(sig.Results().At(0).Type()) {
			continue
		}
		construct := key + "#accessor:" + m.Name()
		cl, ok := c17RefAccessors[m.Name()]
		if !ok {
			r.Undecided("H-links", construct, p.Pos(m.Pos()), "new blob.Ref-carrying accessor on *schema.Blob: decide whether it is a tree link a transitive share must follow (then bytesHaveSchemaLink must honour it) and classify it in c17RefAccessors")
			continue
		}
		if !cl.link {
			r.OKTable("H-links", construct, p.Pos(m.Pos()), "not a tree link: "+cl.reason)
			continue
		}
		links = append(links, m.Name())
	}
	for name, cl := range c17RefAccessors {
		if cl.link {
			found := false
			for _, l := range links {
				found = found || l == name
			}
			if !found {
				brokenf("anchor unresolved: (*schema.Blob).%s", name)
			}
		}
	}
	sort.Strings(links)

	// link conditions: a boolean that is true only when the result of a
	// tree-link accessor of the parsed blob equals target — a direct comparison,
	// or the verdict of a helper all of whose yes-answers are such conditions.
	type hit struct {
		name, field string
		fr          *c17GFrame
		blk         *ssa.BasicBlock
	}
	accessorOf := func(x ssa.Value, f *c17GFrame) (string, bool) {
		c, ok := x.(*ssa.Call)
		if !ok {
			return "", false
		}
		cs := CallSite{c.Parent(), c}
		for _, name := range links {
			if cs.IsStatic("perkeep.org/pkg/schema", "Blob", name) && isParsed(cs.Args()[0], f) {
				return name, true
			}
		}
		return "", false
	}
	refFields := func(name string) []string {
		m := c17Method(p, blobT, name)
		if m == nil {
			return nil
		}
		resT := m.Signature.Results().At(0).Type()
		elem := resT
		if sl, ok := resT.Underlying().(*types.Slice); ok {
			elem = sl.Elem()
		}
		if pt, ok := elem.Underlying().(*types.Pointer); ok {
			elem = pt.Elem()
		}
		var fields []string
		if st, ok := elem.Underlying().(*types.Struct); ok && !IsNamed(elem, "perkeep.org/pkg/blob", "Ref") {
			for i := 0; i < st.NumFields(); i++ {
				if IsNamed(st.Field(i).Type(), "perkeep.org/pkg/blob", "Ref") {
					fields = append(fields, st.Field(i).Name())
				}
			}
		}
		return fields
	}
	directCmp := func(v ssa.Value, fr *c17GFrame) (from ssa.Value, ok bool) {
		switch x := v.(type) {
		case *ssa.BinOp:
			if x.Op != token.EQL {
				return nil, false
			}
			if isRootVal(x.Y, fr, target) {
				return x.X, true
			}
			if isRootVal(x.X, fr, target) {
				return x.Y, true
			}
		case *ssa.Call:
			cs := CallSite{x.Parent(), x}
			if c17IsGenericStatic(cs, "slices", "Contains") && len(x.Call.Args) == 2 && isRootVal(x.Call.Args[1], fr, target) {
				return x.Call.Args[0], true
			}
		}
		return nil, false
	}
	var yesLeaves func(fr *c17GFrame, depth int, each func(ret *ssa.Return, hits []hit, ok bool)) (hits []hit, ok bool, n int)
	var linkCond func(v ssa.Value, fr *c17GFrame, depth int) ([]hit, bool)
	linkCond = func(v ssa.Value, fr *c17GFrame, depth int) ([]hit, bool) {
		v = originValue(v)
		fr = c17Adjust(v, fr)
		if from, ok := directCmp(v, fr); ok {
			var hits []hit
			body.depends(from, fr, func(x ssa.Value, f *c17GFrame) bool {
				if name, ok := accessorOf(x, f); ok {
					fields := refFields(name)
					if len(fields) == 0 {
						hits = append(hits, hit{name, "", f, x.(*ssa.Call).Block()})
					}
					for _, fname := range fields {
						if c17ReadsField(from, fname) {
							hits = append(hits, hit{name, fname, f, x.(*ssa.Call).Block()})
						}
					}
				}
				return false
			})
			return hits, len(hits) > 0
		}
		if c, ok := v.(*ssa.Call); ok && depth < 5 {
			if kid := fr.kids[c]; kid != nil && kid.fn.Signature.Results().Len() == 1 && c17IsBool(kid.fn.Signature.Results().At(0).Type()) {
				hits, ok, n := yesLeaves(kid, depth+1, nil)
				return hits, ok && n > 0
			}
		}
		return nil, false
	}
	isFalse := func(v ssa.Value) bool {
		k, ok := v.(*ssa.Const)
		return ok && k.Value != nil && k.Value.Kind() == constant.Bool && !constant.BoolVal(k.Value)
	}
	yesLeaves = func(fr *c17GFrame, depth int, each func(ret *ssa.Return, hits []hit, ok bool)) ([]hit, bool, int) {
		var all []hit
		allOK := true
		n := 0
		for _, rl := range c17RetLeaves(fr.fn, 0) {
			var facts []CondFact
			if rl.from != nil {
				facts = c17EdgeFacts(rl.from, rl.ret.Block())
			} else {
				facts = FactsAt(rl.ret.Block())
			}
			for _, leaf := range c17PhiLeaves(rl.val) {
				if isFalse(leaf) {
					continue
				}
				n++
				var hits []hit
				ok := false
				if _, isC := leaf.(*ssa.Const); isC {
					fs := facts
					if leaf != rl.val {
						fs = FactsAt(rl.ret.Block()) // operand of a phi elsewhere: only what dominates the return
					}
					for _, f := range fs {
						cond, val := c17StripNot(f.Cond, f.Val)
						if !val {
							continue
						}
						if h, lok := linkCond(cond, fr, depth); lok {
							hits = append(hits, h...)
							ok = true
						}
					}
				} else if h, lok := linkCond(leaf, fr, depth); lok {
					hits, ok = h, true
				}
				if each != nil {
					each(rl.ret, hits, ok)
				}
				all = append(all, hits...)
				allOK = allOK && ok
			}
		}
		return all, allOK, n
	}

	// 3. only those: every possibly-true return is guarded by a link condition
	decisive, _, nTrue := yesLeaves(body.root, 0, func(ret *ssa.Return, hits []hit, ok bool) {
		r.Check(ok, "H-links", key+"#yes-return", p.Pos(ret.Pos()), "a 'has link' answer is decided by equality of a tree-link accessor's result with target", "bytesHaveSchemaLink can answer true without a tree-link accessor's result being equal to target (text search or a non-link field would open unrelated blobs)")
	})
	if nTrue == 0 {
		r.Violation("H-links", key+"#yes-return", site, "bytesHaveSchemaLink never returns true")
	}

	// 2. each link accessor honoured: consulted on the parsed blob, its result
	// (every blob.Ref field of its elements) compared with target in a
	// condition that decides a yes-answer, reachable for each camliType
	for _, name := range links {
		cl := c17RefAccessors[name]
		construct := key + "#" + name
		calls := body.sites(func(fr *c17GFrame, c CallSite) bool {
			return c.IsStatic("perkeep.org/pkg/schema", "Blob", name) && c.Value() != nil && isParsed(c.Args()[0], fr)
		})
		if len(calls) == 0 {
			r.Violation("H-links", construct, site, fmt.Sprintf("(*schema.Blob).%s is never consulted on the parsed blob: links of kind %q (%s) are refused in a transitive share chain", name, name, cl.reason))
			continue
		}
		var why []string
		fields := refFields(name)
		if len(fields) == 0 {
			fields = []string{""}
		}
		for _, fname := range fields {
			var mine []hit
			for _, h := range decisive {
				if h.name == name && h.field == fname {
					mine = append(mine, h)
				}
			}
			if len(mine) == 0 {
				if fname == "" {
					why = append(why, "its result is not compared with target in a way that decides the return value")
				} else {
					why = append(why, fmt.Sprintf("field %s of its elements is not compared with target decisively", fname))
				}
				continue
			}
			for _, ct := range cl.types {
				reach := false
				for _, h := range mine {
					if c17ReachableForType(h.fr, isParsed, ct, h.blk) {
						reach = true
					}
				}
				if !reach {
					why = append(why, fmt.Sprintf("the call is not reachable when the blob's camliType is %q", ct))
				}
			}
		}
		if len(why) == 0 {
			r.OK("H-links", construct, p.Pos(calls[0].c.Pos()), fmt.Sprintf("consulted on the parsed blob, reachable for camliType %s, compared with target, comparison decides the result (%s)", strings.Join(cl.types, "/"), cl.reason))
		} else {
			r.Violation("H-links", construct, p.Pos(calls[0].c.Pos()), fmt.Sprintf("(*schema.Blob).%s is called but %s", name, strings.Join(c17Uniq(why), "; ")))
		}
	}
}

// c17ReadsField reports whether v is (derived from) a read of field name.
func c17ReadsField(v ssa.Value, name string) bool {
	return c17DependsOn(v, func(x ssa.Value) bool {
		switch f := x.(type) {
		case *ssa.FieldAddr:
			return fieldName(f.X.Type(), f.Field) == name
		case *ssa.Field:
			return fieldName(f.X.Type(), f.Field) == name
		}
		return false
	})
}

// c17ReachableForType: is block (of frame fr of the link check's effective
// body) reachable from the entry when every comparison of (*schema.Blob).Type()
// of the parsed blob with a constant is decided as if the type were ct? For a
// helper frame the calls leading to it must be reachable the same way.
func c17ReachableForType(fr *c17GFrame, isParsed func(ssa.Value, *c17GFrame) bool, ct string, block *ssa.BasicBlock) bool {
	for fr != nil {
		if !c17ReachableForType1(fr, isParsed, ct, block) {
			return false
		}
		if fr.parent == nil {
			break
		}
		block, fr = fr.call.Block(), fr.parent
	}
	return true
}

func c17ReachableForType1(fr *c17GFrame, isParsed func(ssa.Value, *c17GFrame) bool, ct string, block *ssa.BasicBlock) bool {
	fn := fr.fn
	isType := func(v ssa.Value) bool {
		x, f := c17Resolve(v, fr)
		c, ok := x.(*ssa.Call)
		if !ok {
			return false
		}
		cs := CallSite{c.Parent(), c}
		return cs.IsStatic("perkeep.org/pkg/schema", "Blob", "Type") && isParsed(cs.Args()[0], f)
	}
	seen := map[*ssa.BasicBlock]bool{}
	var walk func(b *ssa.BasicBlock)
	walk = func(b *ssa.BasicBlock) {
		if seen[b] {
			return
		}
		seen[b] = true
		only := -1
		if len(b.Succs) == 2 && len(b.Instrs) > 0 {
			if ifi, ok := b.Instrs[len(b.Instrs)-1].(*ssa.If); ok {
				cond, pol := c17StripNot(ifi.Cond, true)
				if bo, ok := cond.(*ssa.BinOp); ok && (bo.Op == token.EQL || bo.Op == token.NEQ) {
					var k string
					var have bool
					if isType(bo.X) {
						k, have = ConstString(bo.Y)
					} else if isType(bo.Y) {
						k, have = ConstString(bo.X)
					}
					if have {
						res := (k == ct) == (bo.Op == token.EQL)
						if res == pol {
							only = 0
						} else {
							only = 1
						}
					}
				}
			}
		}
		for i, s := range b.Succs {
			if only >= 0 && i != only {
				continue
			}
			walk(s)
		}
	}
	walk(fn.Blocks[0])
	return seen[block]
}

// ---------------------------------------------------------------------------
// H-auth

type c17Auth struct {
	p           *Program
	r           *Reporter
	requireAuth *ssa.Function
	allowed     *ssa.Function
	allowedWith *ssa.Function
	wantsAuth   *ssa.Function
	createH     *ssa.Function
	authHandler *types.Named
	httpHandler *types.Interface
	// concrete handler type -> registered type name, for types handlerTypeWantsAuth answers true
	wrappedConcrete map[*types.Named]string
	// concrete handler type -> blob-protocol constructor that builds it
	protocolConcrete map[*types.Named]string
	protoCtors       []*ssa.Function
	ifaceSites       map[*types.Named]string
}

// tables computes the handler-type tables shared by H-gate and H-auth.
func (a *c17Auth) tables() {
	if a.wrappedConcrete != nil {
		return
	}
	p := a.p
	a.wrappedConcrete = map[*types.Named]string{}
	a.protocolConcrete = map[*types.Named]string{}
	reg := p.Func("pkg/blobserver", "", "RegisterHandlerConstructor")
	for _, c := range p.StaticCallers(reg) {
		typ, ok := ConstString(c.Args()[0])
		ctor, _ := originValue(c.Args()[1]).(*ssa.Function)
		if !ok || ctor == nil || IsTestSupportPkg(RelPkg(TopFunc(c.Fn).Pkg.Pkg)) {
			continue
		}
		if val, decided := c17EvalStringPred(a.wantsAuth, typ); decided && val {
			if cn := c17CtorConcrete(ctor); cn != nil {
				a.wrappedConcrete[cn] = typ
			}
		}
	}
	for _, rel := range []string{"pkg/blobserver/handlers", "pkg/blobserver/gethandler"} {
		for _, fn := range p.FuncsIn(rel) {
			if fn.Parent() != nil || fn.Signature.Recv() != nil || fn.Object() == nil || !fn.Object().Exported() {
				continue
			}
			res := fn.Signature.Results()
			if res.Len() != 1 || !IsNamed(res.At(0).Type(), "net/http", "Handler") {
				continue
			}
			a.protoCtors = append(a.protoCtors, fn)
			if cn := c17CtorConcrete(fn); cn != nil && c17InModuleType(cn) {
				a.protocolConcrete[cn] = FuncKey(fn)
			}
		}
	}
}

// c17InModuleType reports whether the named type is declared in a perkeep.org package.
func c17InModuleType(n *types.Named) bool {
	return n.Obj().Pkg() != nil && strings.HasPrefix(n.Obj().Pkg().Path(), modPrefix)
}

// madeInterface returns a site where a value of named type n (or *n) is
// converted to an interface having a ServeHTTP method, "" when there is none.
func (a *c17Auth) madeInterface(n *types.Named) string {
	if a.ifaceSites == nil {
		a.ifaceSites = map[*types.Named]string{}
		for _, fn := range a.p.AllFuncs {
			for _, b := range fn.Blocks {
				for _, in := range b.Instrs {
					mi, ok := in.(*ssa.MakeInterface)
					if !ok {
						continue
					}
					tn := NamedOf(mi.X.Type())
					if tn == nil || !c17InModuleType(tn) || a.ifaceSites[tn] != "" {
						continue
					}
					if !types.Implements(mi.X.Type(), a.httpHandler) {
						continue
					}
					if it, ok := mi.Type().Underlying().(*types.Interface); ok && it.NumMethods() > 0 {
						a.ifaceSites[tn] = a.p.Pos(mi.Pos())
					}
				}
			}
		}
	}
	return a.ifaceSites[n]
}

// c17ServerScope: packages whose handler registrations make up a perkeepd
// server. app/ (separate processes with their own auth, behind
// pkg/server/app) and cmd/ (clients, dev tools) are out of scope.
var c17ServerScope = []string{"pkg", "server", "internal"}

func c17NewAuth(p *Program, r *Reporter) *c17Auth {
	a := &c17Auth{p: p, r: r}
	a.requireAuth = p.Func("pkg/auth", "", "RequireAuth")
	a.allowed = p.Func("pkg/auth", "", "Allowed")
	a.allowedWith = p.Func("pkg/auth", "", "AllowedWithAuth")
	a.wantsAuth = p.Func("pkg/serverinit", "", "handlerTypeWantsAuth")
	a.createH = p.Func("pkg/blobserver", "", "CreateHandler")
	a.authHandler = p.NamedType("pkg/auth", "Handler")
	hp := p.ByPath["net/http"]
	if hp == nil || hp.Types == nil {
		brokenf("anchor unresolved: net/http not loaded")
	}
	tn, _ := hp.Types.Scope().Lookup("Handler").(*types.TypeName)
	if tn == nil {
		brokenf("anchor unresolved: net/http.Handler")
	}
	a.httpHandler = tn.Type().Underlying().(*types.Interface)
	return a
}

func c17RuleAuth(a *c17Auth) {
	a.r.Floor("H-auth", 28)
	a.tables()
	a.handlerTypes()
	a.constructors()
	a.registrations()
	a.wrappers()
}

// c17EvalStringPred evaluates a func(string) bool on a constant argument by
// following only comparisons of the parameter with string constants (switch,
// if chains, ||/&& chains lowered to phis).
func c17EvalStringPred(fn *ssa.Function, arg string) (val, decided bool) {
	if len(fn.Params) != 1 || len(fn.Blocks) == 0 {
		return false, false
	}
	prm := fn.Params[0]
	env := map[ssa.Value]ssa.Value{} // phi -> chosen incoming value
	var eval func(v ssa.Value, d int) (bool, bool)
	eval = func(v ssa.Value, d int) (bool, bool) {
		if d > 50 {
			return false, false
		}
		switch x := v.(type) {
		case *ssa.Const:
			if x.Value != nil && x.Value.Kind() == constant.Bool {
				return constant.BoolVal(x.Value), true
			}
		case *ssa.Phi:
			if e, ok := env[x]; ok {
				return eval(e, d+1)
			}
		case *ssa.UnOp:
			if x.Op == token.NOT {
				r, ok := eval(x.X, d+1)
				return !r, ok
			}
		case *ssa.BinOp:
			if x.Op != token.EQL && x.Op != token.NEQ {
				return false, false
			}
			var k string
			var have bool
			if sameOrigin(x.X, prm) {
				k, have = ConstString(x.Y)
			} else if sameOrigin(x.Y, prm) {
				k, have = ConstString(x.X)
			}
			if !have {
				return false, false
			}
			return (k == arg) == (x.Op == token.EQL), true
		}
		return false, false
	}
	b := fn.Blocks[0]
	var prev *ssa.BasicBlock
	for steps := 0; steps < 1000; steps++ {
		if prev != nil {
			for _, in := range b.Instrs {
				ph, ok := in.(*ssa.Phi)
				if !ok {
					break
				}
				for i, pr := range b.Preds {
					if pr == prev {
						env[ph] = ph.Edges[i]
					}
				}
			}
		}
		var next *ssa.BasicBlock
		switch t := b.Instrs[len(b.Instrs)-1].(type) {
		case *ssa.Return:
			if len(t.Results) != 1 {
				return false, false
			}
			return eval(t.Results[0], 0)
		case *ssa.Jump:
			next = b.Succs[0]
		case *ssa.If:
			res, ok := eval(t.Cond, 0)
			if !ok {
				return false, false
			}
			if res {
				next = b.Succs[0]
			} else {
				next = b.Succs[1]
			}
		default:
			return false, false
		}
		prev, b = b, next
	}
	return false, false
}

// (i) registered handler types
func (a *c17Auth) handlerTypes() {
	p, r := a.p, a.r
	reg := p.Func("pkg/blobserver", "", "RegisterHandlerConstructor")
	if uses := p.FuncValueUses(reg); len(uses) > 0 {
		r.Undecided("H-auth", FuncKey(reg)+"#value-uses", p.Pos(uses[0].Pos()), "RegisterHandlerConstructor is used as a value; registrations cannot be enumerated")
	}
	exceptions := map[string]struct {
		reason string
		check  func(ctor *ssa.Function) (bool, string)
	}{
		"share": {"the share handler is the one deliberately unauthenticated endpoint; it validates the via chain itself (H-gate)", a.checkShareCtor},
		"root":  {"the root handler serves only a public landing page/redirects and gates discovery per request", a.checkRootCtor},
	}
	n := 0
	for _, c := range p.StaticCallers(reg) {
		if IsTestSupportPkg(RelPkg(c.Fn.Pkg.Pkg)) {
			continue
		}
		n++
		typ, ok := ConstString(c.Args()[0])
		if !ok {
			r.Undecided("H-auth", FuncKey(c.Fn)+"#register", p.Pos(c.Pos()), "handler type registered under a non-constant name")
			continue
		}
		construct := "pkg/serverinit.handlerTypeWantsAuth#type:" + typ
		site := p.Pos(c.Pos())
		val, decided := c17EvalStringPred(a.wantsAuth, typ)
		if !decided {
			r.Undecided("H-auth", construct, site, "handlerTypeWantsAuth could not be evaluated on this constant (not a chain of comparisons of its parameter with string constants)")
			continue
		}
		if val {
			r.OK("H-auth", construct, site, fmt.Sprintf("handlerTypeWantsAuth(%q) evaluates to true: setupHandler wraps it in auth.Handler", typ))
			continue
		}
		ex, isEx := exceptions[typ]
		if !isEx {
			r.Violation("H-auth", construct, site, fmt.Sprintf("handler type %q is registered but handlerTypeWantsAuth(%q) is false and it is not a reasoned exception: its endpoint is installed without any auth wrapper", typ, typ))
			continue
		}
		ctor, _ := originValue(c.Args()[1]).(*ssa.Function)
		if ctor == nil {
			r.Undecided("H-auth", construct, site, "exception type registered with a non-static constructor")
			continue
		}
		okc, why := ex.check(ctor)
		r.Check(okc, "H-auth", construct, site, "exception ("+ex.reason+"), re-checked: "+why, "exception ("+ex.reason+") no longer holds: "+why)
	}
	r.Analysed("handler_types", n)
}

// ctorConcrete returns the concrete named type of the handler a constructor returns.
func c17CtorConcrete(ctor *ssa.Function) *types.Named {
	var out *types.Named
	for _, ri := range Returns(ctor) {
		if len(ri.Results) == 0 {
			continue
		}
		for _, leaf := range c17PhiLeaves(ri.Results[0]) {
			if IsNilConst(leaf) {
				continue
			}
			mi, ok := leaf.(*ssa.MakeInterface)
			if !ok {
				if ld, isLd := leaf.(*ssa.UnOp); isLd && ld.Op == token.MUL {
					// named result: look at its stores
					if cell, ok := varOf(ld.X); ok {
						for _, st := range storesTo(cell) {
							for _, l2 := range c17PhiLeaves(st.Val) {
								if m2, ok := l2.(*ssa.MakeInterface); ok {
									if n := NamedOf(m2.X.Type()); n != nil {
										if out != nil && out != n {
											return nil
										}
										out = n
									}
								}
							}
						}
					}
					continue
				}
				return nil
			}
			n := NamedOf(mi.X.Type())
			if n == nil || (out != nil && out != n) {
				return nil
			}
			out = n
		}
	}
	return out
}

func (a *c17Auth) checkShareCtor(ctor *ssa.Function) (bool, string) {
	gate := a.p.Func("pkg/server", "shareHandler", "handleGetViaSharing")
	n := c17CtorConcrete(ctor)
	if n == nil || n != NamedOf(gate.Signature.Recv().Type()) {
		return false, "the registered constructor does not return the handler type whose ServeHTTP is checked by H-gate"
	}
	return true, "constructor returns *" + n.Obj().Name() + ", whose every response goes through handleGetViaSharing (H-gate)"
}

func (a *c17Auth) checkRootCtor(ctor *ssa.Function) (bool, string) {
	p := a.p
	n := c17CtorConcrete(ctor)
	if n == nil {
		return false, "cannot determine the concrete handler type the constructor returns"
	}
	serve := c17Method(p, n, "ServeHTTP")
	if serve == nil {
		return false, "no ServeHTTP on " + n.Obj().Name()
	}
	req := c17OneParam(serve, "net/http", "Request")
	rw := c17OneParam(serve, "net/http", "ResponseWriter")
	if req == nil || rw == nil {
		return false, "unexpected ServeHTTP signature"
	}
	// every method of the handler that receives the ResponseWriter must be called under Allowed(req, op!=0)==true
	nGuarded := 0
	for _, c := range c17UsesOf(serve, rw) {
		callee := c.Callee()
		if callee == nil || callee.Signature.Recv() == nil || NamedOf(callee.Signature.Recv().Type()) != n {
			continue
		}
		k, v, ac := BoolCallFact(c.Block(), func(x CallSite) bool { return x.Callee() == a.allowed })
		if !(k && v) {
			return false, fmt.Sprintf("%s is called at %s outside auth.Allowed(...)==true", FuncKey(callee), p.Pos(c.Pos()))
		}
		if !sameOrigin(ac.Args()[0], req) {
			return false, "auth.Allowed is asked about a different request"
		}
		if okOp, why := a.opNonZero(ac.Args()[1]); !okOp {
			return false, "auth.Allowed op: " + why
		}
		nGuarded++
	}
	if nGuarded == 0 {
		return false, "no state-reporting method (serveDiscovery) found under auth.Allowed in " + FuncKey(serve)
	}
	// and those methods have no other unauthenticated caller / are not used as values
	var others []string
	for _, c := range c17UsesOf(serve, rw) {
		callee := c.Callee()
		if callee == nil || callee.Signature.Recv() == nil || NamedOf(callee.Signature.Recv().Type()) != n {
			continue
		}
		for _, oc := range p.StaticCallers(callee) {
			if oc.Fn == serve {
				continue
			}
			// another handler may reuse it when that handler's own type is auth-wrapped by policy
			top := TopFunc(oc.Fn)
			var on *types.Named
			if top.Signature.Recv() != nil {
				on = NamedOf(top.Signature.Recv().Type())
			}
			if typ, ok := a.wrappedConcrete[on]; ok && on != nil {
				others = append(others, fmt.Sprintf("%s (type %q, auth-wrapped)", FuncKey(oc.Fn), typ))
				continue
			}
			return false, fmt.Sprintf("%s is also called from %s, which is not a handler of an auth-wrapped type", FuncKey(callee), FuncKey(oc.Fn))
		}
		if len(p.FuncValueUses(callee)) > 0 {
			return false, FuncKey(callee) + " is used as a function value"
		}
	}
	d := fmt.Sprintf("%d receiver method(s) given the ResponseWriter in %s, each under auth.Allowed(req, op!=0)==true", nGuarded, FuncKey(serve))
	if len(others) > 0 {
		d += "; other callers: " + strings.Join(others, ", ")
	} else {
		d += "; no other caller"
	}
	return true, d
}

// opNonZero: the Operation is a non-zero constant, or a result of a module
// function all of whose returned values for that result are non-zero constants.
func (a *c17Auth) opNonZero(v ssa.Value) (bool, string) {
	v = originValue(v)
	if n, ok := ConstInt(v); ok {
		if n == 0 {
			return false, "the zero Operation is allowed for everybody (AllowedAccess(req)&0 == 0)"
		}
		return true, fmt.Sprintf("constant %d", n)
	}
	if ex, ok := v.(*ssa.Extract); ok {
		if call, ok := ex.Tuple.(*ssa.Call); ok {
			if f := call.Call.StaticCallee(); f != nil && InModule(f) {
				for _, ri := range Returns(f) {
					for _, leaf := range c17PhiLeaves(ri.Results[ex.Index]) {
						n, ok := ConstInt(leaf)
						if !ok {
							return false, "operation returned by " + FuncKey(f) + " is not a constant on every path"
						}
						if n == 0 {
							return false, FuncKey(f) + " can return the zero Operation, which is allowed for everybody"
						}
					}
				}
				return true, "every Operation returned by " + FuncKey(f) + " is a non-zero constant"
			}
		}
	}
	if prm, ok := v.(*ssa.Parameter); ok {
		return false, "operation is parameter " + prm.Name() + " (callers not followed)"
	}
	return false, "operation is not a constant"
}

// c17Sinks follows v through value-preserving instructions, phis and tuple
// extraction and returns the instructions that finally consume it.
func c17Sinks(v ssa.Value) []ssa.Instruction {
	var out []ssa.Instruction
	seen := map[ssa.Value]bool{}
	var walk func(v ssa.Value)
	walk = func(v ssa.Value) {
		if seen[v] || v.Referrers() == nil {
			return
		}
		seen[v] = true
		for _, ref := range *v.Referrers() {
			switch x := ref.(type) {
			case *ssa.DebugRef:
			case *ssa.Phi:
				walk(x)
			case *ssa.MakeInterface:
				walk(x)
			case *ssa.ChangeType:
				walk(x)
			case *ssa.ChangeInterface:
				walk(x)
			default:
				out = append(out, ref)
			}
		}
	}
	walk(v)
	return out
}

// flowsOnlyToRequireAuth: every consumer of v is the handler argument of
// auth.RequireAuth, a nil comparison, or (depth permitting) a return whose
// callers are checked the same way.
func (a *c17Auth) flowsOnlyToRequireAuth(v ssa.Value, depth int) (bool, string) {
	p := a.p
	n := 0
	for _, s := range c17Sinks(v) {
		switch x := s.(type) {
		case *ssa.BinOp:
			if (x.Op == token.EQL || x.Op == token.NEQ) && (IsNilConst(x.X) || IsNilConst(x.Y)) {
				continue
			}
			return false, "compared at " + p.Pos(x.Pos())
		case ssa.CallInstruction:
			cs := CallSite{x.Parent(), x}
			if cs.Callee() == a.requireAuth && len(x.Common().Args) == 2 && c17FlowsTo(v, x.Common().Args[0]) {
				if okOp, why := a.opNonZero(x.Common().Args[1]); !okOp {
					return false, "auth.RequireAuth at " + p.Pos(cs.Pos()) + ": " + why
				}
				n++
				continue
			}
			return false, fmt.Sprintf("passed to %s at %s without auth.RequireAuth", cs.CalleeKey(), p.Pos(cs.Pos()))
		case *ssa.Return:
			fn := x.Parent()
			if depth <= 0 || fn.Parent() != nil {
				return false, "returned from " + FuncKey(fn) + " (callers not followed further)"
			}
			idx := -1
			for i, rv := range x.Results {
				if c17FlowsTo(v, rv) {
					idx = i
				}
			}
			if idx < 0 {
				return false, "returned from " + FuncKey(fn) + " in an unexpected way"
			}
			if len(p.FuncValueUses(fn)) > 0 {
				return false, FuncKey(fn) + " is used as a function value"
			}
			callers := p.StaticCallers(fn)
			if len(callers) == 0 {
				return false, FuncKey(fn) + " returns the handler but has no static caller"
			}
			for _, c := range callers {
				if c.Value() == nil {
					return false, "go/defer call of " + FuncKey(fn)
				}
				rv := ResultValue(c.Value(), idx)
				if rv == nil {
					continue // result unused
				}
				if ok, why := a.flowsOnlyToRequireAuth(rv, depth-1); !ok {
					return false, why
				}
				n++
			}
		case *ssa.Extract:
			if ok, why := a.flowsOnlyToRequireAuth(x, depth); !ok {
				return false, why
			}
			n++
		default:
			return false, fmt.Sprintf("escapes through %T at %s", s, p.Pos(s.Pos()))
		}
	}
	if n == 0 {
		return false, "the handler is dropped"
	}
	return true, ""
}

// c17FlowsTo: does value src reach dst through phis and value-preserving conversions?
func c17FlowsTo(src, dst ssa.Value) bool {
	if src == dst {
		return true
	}
	seen := map[ssa.Value]bool{}
	var walk func(v ssa.Value) bool
	walk = func(v ssa.Value) bool {
		if v == src {
			return true
		}
		if seen[v] {
			return false
		}
		seen[v] = true
		switch x := v.(type) {
		case *ssa.Phi:
			for _, e := range x.Edges {
				if walk(e) {
					return true
				}
			}
		case *ssa.MakeInterface:
			return walk(x.X)
		case *ssa.ChangeType:
			return walk(x.X)
		case *ssa.ChangeInterface:
			return walk(x.X)
		}
		return false
	}
	return walk(dst)
}

// (ii) blob-protocol handler constructors
func (a *c17Auth) constructors() {
	p, r := a.p, a.r
	ctors := a.protoCtors
	isCtor := map[*ssa.Function]bool{}
	for _, fn := range ctors {
		isCtor[fn] = true
	}
	if len(ctors) < 6 {
		brokenf("anchor unresolved: expected the blob-protocol handler constructors in pkg/blobserver/handlers and gethandler, found %d", len(ctors))
	}
	for _, ctor := range ctors {
		if uses := p.FuncValueUses(ctor); len(uses) > 0 {
			r.Undecided("H-auth", FuncKey(ctor)+"#value-uses", p.Pos(uses[0].Pos()), "handler constructor used as a function value; its call sites cannot be enumerated")
		}
		for _, c := range p.StaticCallers(ctor) {
			if IsTestSupportPkg(RelPkg(TopFunc(c.Fn).Pkg.Pkg)) {
				continue
			}
			construct := FuncKey(c.Fn) + "#" + FuncKey(ctor)
			site := p.Pos(c.Pos())
			if isCtor[c.Fn] {
				r.OK("H-auth", construct, site, "wrapper constructor: the obligation is checked at its own callers")
				continue
			}
			if c.Value() == nil {
				r.Violation("H-auth", construct, site, "handler constructor called by go/defer")
				continue
			}
			ok, why := a.flowsOnlyToRequireAuth(c.Value(), 1)
			r.Check(ok, "H-auth", construct, site, "the unauthenticated blob-protocol handler flows only into auth.RequireAuth (non-zero Operation)", "blob-protocol handler reachable without the auth wrapper: "+why)
		}
	}
	r.Analysed("handler_constructors", len(ctors))
}

// (iii) registrations
func (a *c17Auth) isRegistration(c CallSite) (pathArg, handlerArg ssa.Value, ok bool) {
	cc := c.Common()
	name := c.MethodName()
	if name != "Handle" && name != "HandleFunc" {
		return nil, nil, false
	}
	args := c.Args()
	if cc.IsInvoke() {
		// an interface with Handle(string, http.Handler)
		sig, _ := cc.Method.Type().(*types.Signature)
		if sig == nil || sig.Params().Len() != 2 {
			return nil, nil, false
		}
		if b, isB := sig.Params().At(0).Type().Underlying().(*types.Basic); !isB || b.Kind() != types.String {
			return nil, nil, false
		}
		return args[1], args[2], true
	}
	f := c.Callee()
	if f == nil {
		return nil, nil, false
	}
	switch {
	case funcIs(f, "net/http", "", "Handle"), funcIs(f, "net/http", "", "HandleFunc"):
		return args[0], args[1], true
	case funcIs(f, "net/http", "ServeMux", "Handle"), funcIs(f, "net/http", "ServeMux", "HandleFunc"),
		funcIs(f, "perkeep.org/pkg/webserver", "Server", "Handle"), funcIs(f, "perkeep.org/pkg/webserver", "Server", "HandleFunc"):
		return args[1], args[2], true
	}
	return nil, nil, false
}

func c17PathLabel(v ssa.Value) string {
	if s, ok := ConstString(v); ok {
		return s
	}
	if bo, ok := originValue(v).(*ssa.BinOp); ok && bo.Op == token.ADD {
		return c17PathLabel(bo.X) + "+" + c17PathLabel(bo.Y)
	}
	return AccessPath(v)
}

func (a *c17Auth) registrations() {
	p, r := a.p, a.r
	n := 0
	for _, fn := range p.FuncsUnder(c17ServerScope...) {
		rel := RelPkg(TopFunc(fn).Pkg.Pkg)
		if IsTestSupportPkg(rel) || rel == "pkg/webserver" {
			continue // pkg/webserver: the mux wrapper itself, forwards what it is given
		}
		for _, c := range CallsIn(fn, false) {
			pathArg, h, ok := a.isRegistration(c)
			if !ok {
				continue
			}
			n++
			construct := FuncKey(fn) + "#" + c17PathLabel(pathArg)
			site := p.Pos(c.Pos())
			okc, why := a.classify(h, nil, c.Block(), fn, 0)
			r.Check(okc, "H-auth", construct, site, why, "endpoint installed without an auth wrapper: "+why)
		}
	}
	r.Analysed("handler_registrations", n)
	if n < 8 {
		r.Violation("H-auth", "registrations#floor", "?", fmt.Sprintf("only %d handler registrations found in the server packages; 8 confirmed on the pinned tree", n))
	}
}

// classify decides whether handler value v, used in block at (arriving from
// pred when v is a phi operand), is behind auth.
func (a *c17Auth) classify(v ssa.Value, pred, at *ssa.BasicBlock, fn *ssa.Function, depth int) (bool, string) {
	p := a.p
	if depth > 4 {
		return false, "handler value too deeply nested to classify"
	}
	// strip interface conversions but keep the concrete value
	for {
		switch x := v.(type) {
		case *ssa.ChangeInterface:
			v = x.X
			continue
		case *ssa.UnOp:
			if x.Op == token.MUL {
				if rv := resolveLoad(x); rv != nil {
					v = rv
					continue
				}
			}
		}
		break
	}
	switch x := v.(type) {
	case *ssa.Phi:
		var parts []string
		for i, e := range x.Edges {
			ok, why := a.classify(e, x.Block().Preds[i], x.Block(), fn, depth+1)
			if !ok {
				return false, fmt.Sprintf("on the path through block %d: %s", x.Block().Preds[i].Index, why)
			}
			parts = append(parts, why)
		}
		return true, strings.Join(c17Uniq(parts), " | ")
	case *ssa.Call:
		callee := CallSite{x.Parent(), x}.Callee()
		switch {
		case callee == a.requireAuth:
			if ok, why := a.opNonZero(x.Call.Args[1]); !ok {
				return false, "auth.RequireAuth with a bad Operation: " + why
			}
			return true, "auth.RequireAuth value"
		case callee != nil && InModule(callee) && callee.Parent() == nil:
			// a module function building the handler: every returned value must classify
			var parts []string
			for _, ri := range Returns(callee) {
				if len(ri.Results) != 1 {
					return false, "handler built by " + FuncKey(callee) + " (multi-result; not followed)"
				}
				ok, why := a.classify(ri.Results[0], nil, ri.Ret.Block(), callee, depth+1)
				if !ok {
					return false, "built by " + FuncKey(callee) + ": " + why
				}
				parts = append(parts, why)
			}
			return true, "built by " + FuncKey(callee) + ": " + strings.Join(c17Uniq(parts), " | ")
		}
		return false, "result of " + (CallSite{x.Parent(), x}).CalleeKey() + " is not an auth wrapper"
	case *ssa.MakeInterface:
		inner := x.X
		t := inner.Type()
		// auth.Handler wrap
		if n := NamedOf(t); n != nil && n == a.authHandler {
			return true, "auth.Handler wrap (requires OpAll)"
		}
		// http.HandlerFunc(closure or function)
		if IsNamed(t, "net/http", "HandlerFunc") {
			var f *ssa.Function
			switch y := originValue(inner).(type) {
			case *ssa.MakeClosure:
				f = y.Fn.(*ssa.Function)
			case *ssa.Function:
				f = y
			}
			if f == nil {
				return false, "http.HandlerFunc of a dynamic function value"
			}
			return a.classifyFunc(f, depth+1)
		}
		// a concrete handler type: always refusing?
		if n := NamedOf(t); n != nil {
			if serve := c17Method(p, n, "ServeHTTP"); serve != nil && InModule(serve) {
				if ok, why := a.alwaysRefuses(serve); ok {
					return true, why
				}
			}
		}
		// bare handler: acceptable only on the edge where the policy function said "no auth" for the same htype
		var facts []CondFact
		if pred != nil {
			facts = c17EdgeFacts(pred, at)
		} else {
			facts = FactsAt(at)
		}
		k, val, pc := c17BoolCallIn(facts, func(c CallSite) bool { return c.Callee() == a.wantsAuth })
		if k && !val {
			// the htype asked about is the one the handler was created from
			asked := AccessPath(pc.Args()[0])
			for _, c := range CallsIn(fn, false) {
				if c.Callee() == a.createH {
					if got := AccessPath(c.Args()[0]); got != asked || strings.HasPrefix(got, "?") {
						return false, fmt.Sprintf("bare handler: handlerTypeWantsAuth is asked about %s but the handler is created from %s", asked, got)
					}
				}
			}
			return true, "bare handler only where handlerTypeWantsAuth(" + asked + ")==false (types covered by #type:* obligations; app handlers authenticate themselves — not decided)"
		}
		return false, fmt.Sprintf("%s is installed as is (no auth.RequireAuth / auth.Handler around it, not an always-refusing handler)", typeKey(t))
	}
	return false, fmt.Sprintf("handler value of unrecognised shape (%T)", v)
}

func c17Uniq(in []string) []string {
	seen := map[string]bool{}
	var out []string
	for _, s := range in {
		if !seen[s] {
			seen[s] = true
			out = append(out, s)
		}
	}
	return out
}

// refusingReplies: callees that only ever produce an error reply.
var c17RefusingHelpers = map[string]string{
	"pkg/serverinit.unsupportedHandler": "replies 400 'Unsupported Perkeep path or method' (re-checked: hands rw only to httputil.BadRequestError)",
}

// classifyFunc: a handler function is behind auth when every call that gets
// its ResponseWriter is ServeHTTP on an auth-classified handler value, a
// refusing helper, or a helper of its effective body (the method behind a
// bound method value, an unexported same-package function or a literal) that
// itself satisfies the same rule — and at least one auth-wrapped ServeHTTP is
// reached.
func (a *c17Auth) classifyFunc(f *ssa.Function, depth int) (bool, string) {
	ok, why, nAuth := a.classifyFuncN(f, depth, map[*ssa.Function]bool{})
	if !ok {
		return false, why
	}
	if nAuth == 0 {
		return false, FuncKey(f) + " never serves through an auth-wrapped handler"
	}
	return true, fmt.Sprintf("handler function %s: every response path is ServeHTTP on an auth.RequireAuth value or a 400 helper", FuncKey(f))
}

// c17HandlerHelper: callee belongs to the effective body of handler function f.
func c17HandlerHelper(f, callee *ssa.Function) bool {
	if callee == nil || len(callee.Blocks) == 0 {
		return false
	}
	if f.Synthetic != "" && f.Pkg == nil {
		// bound-method / thunk wrapper: its only call is the wrapped method
		return InModule(callee) || callee.Parent() != nil
	}
	return c17Inlinable(f, callee)
}

func (a *c17Auth) classifyFuncN(f *ssa.Function, depth int, busy map[*ssa.Function]bool) (bool, string, int) {
	p := a.p
	if busy[f] {
		return true, "", 0
	}
	busy[f] = true
	defer delete(busy, f)
	if depth > 8 {
		return false, FuncKey(f) + ": helper chain too deep to classify", 0
	}
	rw := c17OneParam(f, "net/http", "ResponseWriter")
	if rw == nil {
		return false, FuncKey(f) + " has no ResponseWriter parameter", 0
	}
	uses := c17UsesOf(f, rw)
	if len(uses) == 0 && len(busy) == 1 {
		return false, FuncKey(f) + " never uses its ResponseWriter", 0
	}
	nAuth := 0
	for _, c := range uses {
		if c.Common().IsInvoke() && c.MethodName() == "ServeHTTP" {
			ok, why := a.classify(c.Common().Value, nil, c.Block(), f, depth+1)
			if !ok {
				return false, fmt.Sprintf("%s serves through a handler that is not auth-wrapped at %s: %s", FuncKey(f), p.Pos(c.Pos()), why), 0
			}
			nAuth++
			continue
		}
		if callee := c.Callee(); callee != nil {
			if _, ok := c17RefusingHelpers[FuncKey(callee)]; ok {
				if a.onlyErrorReplies(callee) {
					continue
				}
				return false, FuncKey(callee) + " no longer only replies with an error", 0
			}
			if !c.IsGo() && c17HandlerHelper(f, callee) && c17OneParam(callee, "net/http", "ResponseWriter") != nil {
				ok, why, n := a.classifyFuncN(callee, depth+1, busy)
				if !ok {
					return false, why, 0
				}
				nAuth += n
				continue
			}
		}
		return false, fmt.Sprintf("%s hands the ResponseWriter to %s at %s without an auth wrapper", FuncKey(f), c.CalleeKey(), p.Pos(c.Pos())), 0
	}
	return true, "", nAuth
}

func (a *c17Auth) onlyErrorReplies(f *ssa.Function) bool {
	rw := c17OneParam(f, "net/http", "ResponseWriter")
	if rw == nil {
		return false
	}
	uses := c17UsesOf(f, rw)
	for _, c := range uses {
		callee := c.Callee()
		if callee == nil || FuncKey(callee) != "internal/httputil.BadRequestError" {
			return false
		}
	}
	return len(uses) > 0
}

// alwaysRefuses: a ServeHTTP whose only uses of the ResponseWriter are
// http.Error(w, _, 401|403).
func (a *c17Auth) alwaysRefuses(serve *ssa.Function) (bool, string) {
	rw := c17OneParam(serve, "net/http", "ResponseWriter")
	if rw == nil {
		return false, ""
	}
	uses := c17UsesOf(serve, rw)
	if len(uses) == 0 {
		return false, ""
	}
	for _, c := range uses {
		if !c.IsStatic("net/http", "", "Error") {
			return false, ""
		}
		code, ok := ConstInt(c.Args()[2])
		if !ok || (code != 401 && code != 403) {
			return false, ""
		}
	}
	return true, "always-refusing handler " + FuncKey(serve) + " (only http.Error 401/403)"
}

// (iv) the wrappers themselves
func (a *c17Auth) wrappers() {
	p, r := a.p, a.r
	isAllowed := func(c CallSite) bool { return c.Callee() == a.allowed }

	// functions that call through to an inner http.Handler in package auth
	var through []*ssa.Function
	for _, fn := range p.FuncsIn("pkg/auth") {
		for _, c := range CallsIn(fn, false) {
			if c.Common().IsInvoke() && c.MethodName() == "ServeHTTP" && types.Implements(c.Common().Value.Type(), a.httpHandler) {
				through = append(through, fn)
				break
			}
		}
	}
	var closureOK, methodOK bool
	for _, fn := range through {
		for _, c := range CallsIn(fn, false) {
			if !(c.Common().IsInvoke() && c.MethodName() == "ServeHTTP") {
				continue
			}
			construct := FuncKey(fn) + "#inner.ServeHTTP"
			site := p.Pos(c.Pos())
			k, v, ac := BoolCallFact(c.Block(), isAllowed)
			switch {
			case !(k && v):
				r.Violation("H-auth", construct, site, "the wrapped handler is invoked on a path where auth.Allowed(...)==true is not established")
				continue
			case !sameOrigin(ac.Args()[0], c.Args()[2]):
				r.Violation("H-auth", construct, site, "auth.Allowed is asked about a different request than the one served")
				continue
			}
			// op: a parameter of fn, or the op captured from RequireAuth's parameter
			op := originValue(ac.Args()[1])
			opOK := false
			opWhy := ""
			if prm, isP := op.(*ssa.Parameter); isP && IsNamed(prm.Type(), "perkeep.org/pkg/auth", "Operation") {
				opOK = true
				opWhy = "op parameter " + prm.Name() + " of " + FuncKey(prm.Parent())
				// parameters of unexported helpers: every caller passes a non-zero constant or its own op parameter
				if prm.Parent() == fn && fn.Parent() == nil {
					for _, cc := range p.StaticCallers(fn) {
						idx := -1
						for i, fp := range fn.Params {
							if fp == prm {
								idx = i
							}
						}
						if idx >= 0 {
							if ok2, why2 := a.opNonZero(cc.Common().Args[idx]); !ok2 {
								opOK = false
								opWhy = "caller " + FuncKey(cc.Fn) + ": " + why2
							}
						}
					}
				}
			} else if ok2, why2 := a.opNonZero(op); ok2 {
				opOK, opWhy = true, why2
			} else {
				opWhy = why2
			}
			if !opOK {
				r.Violation("H-auth", construct, site, "auth.Allowed is asked about the wrong Operation: "+opWhy)
				continue
			}
			r.OK("H-auth", construct, site, "inner handler invoked only under auth.Allowed(sameRequest, "+opWhy+")==true")
			if fn.Parent() == a.requireAuth {
				closureOK = true
			}
			if fn.Signature.Recv() != nil && NamedOf(fn.Signature.Recv().Type()) == a.authHandler {
				methodOK = true
			}
		}
	}
	// RequireAuth returns that closure; auth.Handler.ServeHTTP reaches the checked method
	{
		construct := FuncKey(a.requireAuth) + "#returns-guard"
		ok := closureOK
		for _, ri := range Returns(a.requireAuth) {
			mc, isMC := originValue(ri.Results[0]).(*ssa.MakeClosure)
			if !isMC || mc.Fn.(*ssa.Function).Parent() != a.requireAuth {
				ok = false
			}
		}
		r.Check(ok, "H-auth", construct, p.Pos(a.requireAuth.Pos()), "RequireAuth returns its guarding closure on every path", "RequireAuth does not (only) return a closure that checks auth.Allowed before calling the wrapped handler")
	}
	{
		serve := c17Method(p, a.authHandler, "ServeHTTP")
		if serve == nil {
			brokenf("anchor unresolved: auth.Handler.ServeHTTP")
		}
		construct := FuncKey(serve) + "#guarded"
		ok := methodOK
		why := ""
		direct := false
		for _, fn := range through {
			if fn == serve {
				direct = true
			}
		}
		if !direct {
			// must hand the ResponseWriter only to a checked method of auth.Handler
			rw := c17OneParam(serve, "net/http", "ResponseWriter")
			for _, c := range c17UsesOf(serve, rw) {
				callee := c.Callee()
				isThrough := false
				for _, fn := range through {
					if fn == callee {
						isThrough = true
					}
				}
				if !isThrough {
					ok = false
					why = "hands the ResponseWriter to " + c.CalleeKey()
				}
			}
		}
		r.Check(ok, "H-auth", construct, p.Pos(serve.Pos()), "auth.Handler.ServeHTTP serves only through the Allowed-guarded path with a non-zero Operation", "auth.Handler.ServeHTTP is not guarded: "+why)
	}

	// Allowed: yes only under AllowedWithAuth(mode, req, op)==true
	{
		fn := a.allowed
		construct := FuncKey(fn) + "#yes-return"
		req := c17OneParam(fn, "net/http", "Request")
		opP := c17OneParam(fn, "perkeep.org/pkg/auth", "Operation")
		if req == nil || opP == nil {
			brokenf("anchor unresolved: auth.Allowed signature")
		}
		var bad []string
		nYes := 0
		for _, ri := range Returns(fn) {
			for _, leaf := range c17PhiLeaves(ri.Results[0]) {
				if k, ok := leaf.(*ssa.Const); ok && k.Value != nil && k.Value.Kind() == constant.Bool && !constant.BoolVal(k.Value) {
					continue
				}
				nYes++
				var ac CallSite
				known, val := false, false
				if c, ok := originValue(leaf).(*ssa.Call); ok && (CallSite{fn, c}).Callee() == a.allowedWith {
					known, val, ac = true, true, CallSite{fn, c} // return AllowedWithAuth(...)
				} else if _, isC := leaf.(*ssa.Const); isC {
					known, val, ac = BoolCallFact(ri.Ret.Block(), func(c CallSite) bool { return c.Callee() == a.allowedWith })
				}
				switch {
				case !(known && val):
					bad = append(bad, "a yes-return at "+p.Pos(ri.Ret.Pos())+" is not under AllowedWithAuth(...)==true")
				case !sameOrigin(ac.Args()[1], req) || !sameOrigin(ac.Args()[2], opP):
					bad = append(bad, "AllowedWithAuth is not asked about this request and this Operation")
				}
			}
		}
		if nYes == 0 {
			bad = append(bad, "auth.Allowed never says yes")
		}
		r.Check(len(bad) == 0, "H-auth", construct, p.Pos(fn.Pos()), "auth.Allowed answers true only under AllowedWithAuth(mode, req, op)==true", strings.Join(bad, "; "))
	}
	// AllowedWithAuth: (AllowedAccess(req) & mask) == mask, mask derived from op
	{
		fn := a.allowedWith
		construct := FuncKey(fn) + "#mask"
		req := c17OneParam(fn, "net/http", "Request")
		opP := c17OneParam(fn, "perkeep.org/pkg/auth", "Operation")
		if req == nil || opP == nil {
			brokenf("anchor unresolved: auth.AllowedWithAuth signature")
		}
		isAccess := func(v ssa.Value) bool {
			return c17DependsOn(v, func(x ssa.Value) bool {
				c, ok := x.(*ssa.Call)
				return ok && c.Call.IsInvoke() && c.Call.Method.Name() == "AllowedAccess" && len(c.Call.Args) == 1 && sameOrigin(c.Call.Args[0], req)
			})
		}
		status, why := "ok", ""
		for _, ri := range Returns(fn) {
			bo, ok := originValue(ri.Results[0]).(*ssa.BinOp)
			if !ok {
				status, why = "undecided", "the result is not a comparison"
				break
			}
			if bo.Op != token.EQL {
				status, why = "violated", fmt.Sprintf("the result is `%s`, not an equality with the full mask: a credential holding any one of the requested operations would be allowed all of them", bo.Op)
				break
			}
			and, mask := bo.X, bo.Y
			if _, isAnd := and.(*ssa.BinOp); !isAnd {
				and, mask = bo.Y, bo.X
			}
			ab, isAnd := and.(*ssa.BinOp)
			if !isAnd || ab.Op != token.AND {
				status, why = "violated", "the granted operations are not masked with & before the comparison"
				break
			}
			var granted ssa.Value
			switch {
			case sameOrigin(ab.X, mask):
				granted = ab.Y
			case sameOrigin(ab.Y, mask):
				granted = ab.X
			default:
				status, why = "violated", "the comparison is not of the form (granted & mask) == mask"
			}
			if status != "ok" {
				break
			}
			if !isAccess(granted) {
				status, why = "violated", "granted operations do not come from am.AllowedAccess(req)"
				break
			}
			if isAccess(mask) || !c17DependsOnValue(mask, opP) {
				status, why = "violated", "the mask is not derived from the requested Operation"
				break
			}
		}
		switch status {
		case "ok":
			r.OK("H-auth", construct, p.Pos(fn.Pos()), "returns (am.AllowedAccess(req) & mask) == mask with mask derived from op")
		case "undecided":
			r.Undecided("H-auth", construct, p.Pos(fn.Pos()), why)
		default:
			r.Violation("H-auth", construct, p.Pos(fn.Pos()), why)
		}
	}
}

// ---------------------------------------------------------------------------
// H-secret: credential comparisons inside the auth modes compare request data
// with a secret that is provably initialised and non-empty.
//
// Model. For every AllowedAccess implementation (and, per call site, every
// module function with a single bool/Operation result that feeds its decision)
// the branch conditions
// are split into atoms. An atom is a credential comparison when it is an
// equality test (==, !=, bytes.Equal, hmac.Equal, EqualFold,
// ConstantTimeCompare/Compare against an int constant, HasPrefix-like) with
// exactly one request-derived operand and a non-constant other operand (the
// secret). A credential comparison is STRONG when the secret (or, for plain
// equality, the request operand) is provably non-empty where it is compared;
// otherwise WEAK: a request that carries nothing can pass it. All other
// conditions are FREE. The function is then executed over every assignment
// of the free and weak atoms with every strong comparison failing (the
// request carries no credential): if some assignment grants a non-zero
// Operation and the same assignment with every weak comparison failing does
// not, the weak comparisons that succeeded on that path authorise a
// credential-less request.

type c17Kind int

const (
	c17Free c17Kind = iota
	c17Strong
	c17Weak
)

type c17Frame struct {
	fn     *ssa.Function
	call   *ssa.Call // call site in parent (nil for a root frame)
	parent *c17Frame
	depth  int
}

func (f *c17Frame) root() *c17Frame {
	for f.parent != nil {
		f = f.parent
	}
	return f
}

func (f *c17Frame) inChain(fn *ssa.Function) bool {
	for x := f; x != nil; x = x.parent {
		if x.fn == fn {
			return true
		}
	}
	return false
}

// argFor returns the caller-side argument bound to parameter prm of f.fn.
func (f *c17Frame) argFor(prm *ssa.Parameter) ssa.Value {
	if f == nil || f.call == nil || prm.Parent() != f.fn {
		return nil
	}
	for i, fp := range f.fn.Params {
		if fp == prm && i < len(f.call.Call.Args) {
			return f.call.Call.Args[i]
		}
	}
	return nil
}

type c17Atom struct {
	v     ssa.Value
	kind  c17Kind
	succ  bool     // value of v that means "comparison matched / helper said yes"
	descr []string // weak secrets behind the atom
	recs  []*c17SiteRec
	name  string
}

type c17SiteRec struct {
	construct string
	site      string
	strong    bool
	why       string
	decisive  bool
}

type c17Sec struct {
	p           *Program
	r           *Reporter
	sites       map[string]*c17SiteRec
	siteOrder   []string
	globalMemo  map[*ssa.Global]*c17GlobalInfo
	fieldMemo   map[string]c17Proof
	busy        map[*ssa.Function]bool
	helperMemo  map[*ssa.Call]*c17HelperRes
	hideMemo    map[*ssa.Function]string
	absenceMemo map[*ssa.Function]c17Proof
	authTypes   map[*types.Named]bool
	undecided   map[string]string // construct -> detail
	undSite     map[string]string
	nCmp        int
}

type c17Proof struct {
	ok  bool
	why string
}

func c17StringLike(t types.Type) bool {
	switch u := t.Underlying().(type) {
	case *types.Basic:
		return u.Info()&types.IsString != 0
	case *types.Slice:
		b, ok := u.Elem().Underlying().(*types.Basic)
		return ok && (b.Kind() == types.Byte || b.Kind() == types.Uint8)
	case *types.Array:
		b, ok := u.Elem().Underlying().(*types.Basic)
		return ok && (b.Kind() == types.Byte || b.Kind() == types.Uint8)
	}
	return false
}

// c17StripConv looks through string<->[]byte conversions, whole-slice
// expressions and single-assignment locals.
func c17StripConv(v ssa.Value) ssa.Value {
	for i := 0; i < 16 && v != nil; i++ {
		v = originValue(v)
		switch x := v.(type) {
		case *ssa.Convert:
			if c17StringLike(x.Type()) && c17StringLike(x.X.Type()) {
				v = x.X
				continue
			}
		case *ssa.Slice:
			if x.Low == nil && x.High == nil && x.Max == nil && c17StringLike(x.X.Type()) {
				v = x.X
				continue
			}
		}
		return v
	}
	return v
}

func (s *c17Sec) resolve(v ssa.Value, f *c17Frame) (ssa.Value, *c17Frame) {
	for i := 0; i < 16; i++ {
		v = c17StripConv(v)
		prm, ok := v.(*ssa.Parameter)
		if !ok {
			return v, f
		}
		a := f.argFor(prm)
		if a == nil {
			return v, f
		}
		v, f = a, f.parent
	}
	return v, f
}

func c17IsRequestType(t types.Type) bool {
	return IsNamed(t, "net/http", "Request") || IsNamed(t, "net/http", "Header") || IsNamed(t, "net/url", "URL") || IsNamed(t, "net/url", "Values")
}

// reqDerived: v depends on the *http.Request (directly, or through a
// parameter bound to request-derived data at the frame's call site).
func (s *c17Sec) reqDerived(v ssa.Value, f *c17Frame) bool {
	return c17DependsOn(v, func(x ssa.Value) bool {
		prm, ok := x.(*ssa.Parameter)
		if !ok {
			return false
		}
		if c17IsRequestType(prm.Type()) {
			return true
		}
		if a := f.argFor(prm); a != nil {
			return s.reqDerived(a, f.parent)
		}
		return false
	})
}

// ---- comparison recognition ------------------------------------------------

type c17Cmp struct {
	x, y       ssa.Value
	succ       bool // atom value meaning "matched"
	prefixLike bool // true whenever y is empty (HasPrefix/HasSuffix/Contains)
	name       string
}

func c17IntOp(op token.Token, a, b int64) (bool, bool) {
	switch op {
	case token.EQL:
		return a == b, true
	case token.NEQ:
		return a != b, true
	case token.LSS:
		return a < b, true
	case token.LEQ:
		return a <= b, true
	case token.GTR:
		return a > b, true
	case token.GEQ:
		return a >= b, true
	}
	return false, false
}

func c17FlipOp(op token.Token) token.Token {
	switch op {
	case token.LSS:
		return token.GTR
	case token.LEQ:
		return token.GEQ
	case token.GTR:
		return token.LSS
	case token.GEQ:
		return token.LEQ
	}
	return op
}

var c17BoolComparators = []struct {
	pkg, name  string
	prefixLike bool
}{
	{"bytes", "Equal", false}, {"crypto/hmac", "Equal", false}, {"strings", "EqualFold", false}, {"bytes", "EqualFold", false},
	{"strings", "HasPrefix", true}, {"strings", "HasSuffix", true}, {"strings", "Contains", true},
	{"bytes", "HasPrefix", true}, {"bytes", "HasSuffix", true}, {"bytes", "Contains", true},
}

// int-valued comparators: result when equal, results when different.
var c17IntComparators = []struct {
	pkg, name string
	eq        int64
	ne        []int64
}{
	{"crypto/subtle", "ConstantTimeCompare", 1, []int64{0}},
	{"bytes", "Compare", 0, []int64{-1, 1}},
	{"strings", "Compare", 0, []int64{-1, 1}},
}

// c17AsComparison recognises an equality test. ambiguous=true: a comparator
// call is tested in a way that does not separate equal from different.
func c17AsComparison(v ssa.Value) (cmp *c17Cmp, ambiguous bool) {
	switch x := v.(type) {
	case *ssa.BinOp:
		if (x.Op == token.EQL || x.Op == token.NEQ) && c17StringLike(x.X.Type()) && c17StringLike(x.Y.Type()) {
			return &c17Cmp{x: x.X, y: x.Y, succ: x.Op == token.EQL, name: x.Op.String()}, false
		}
		for _, side := range []int{0, 1} {
			cv, kv, op := x.X, x.Y, x.Op
			if side == 1 {
				cv, kv, op = x.Y, x.X, c17FlipOp(x.Op)
			}
			call, ok := originValue(cv).(*ssa.Call)
			if !ok {
				continue
			}
			k, isConst := ConstInt(kv)
			if !isConst {
				continue
			}
			cs := CallSite{call.Parent(), call}
			for _, ic := range c17IntComparators {
				if !cs.IsStatic(ic.pkg, "", ic.name) || len(call.Call.Args) != 2 {
					continue
				}
				te, ok1 := c17IntOp(op, ic.eq, k)
				if !ok1 {
					return nil, true
				}
				for _, ne := range ic.ne {
					tn, _ := c17IntOp(op, ne, k)
					if tn == te {
						return nil, true
					}
				}
				return &c17Cmp{x: call.Call.Args[0], y: call.Call.Args[1], succ: te, name: ic.pkg + "." + ic.name}, false
			}
		}
	case *ssa.Call:
		cs := CallSite{x.Parent(), x}
		for _, bc := range c17BoolComparators {
			if cs.IsStatic(bc.pkg, "", bc.name) && len(x.Call.Args) == 2 {
				return &c17Cmp{x: x.Call.Args[0], y: x.Call.Args[1], succ: true, prefixLike: bc.prefixLike, name: bc.pkg + "." + bc.name}, false
			}
		}
	}
	return nil, false
}

// ---- describing a secret -----------------------------------------------------

func c17FieldOf(fa *ssa.FieldAddr) (*types.Named, *types.Var) {
	t := fa.X.Type()
	if pt, ok := t.Underlying().(*types.Pointer); ok {
		t = pt.Elem()
	}
	st, ok := t.Underlying().(*types.Struct)
	if !ok || fa.Field >= st.NumFields() {
		return nil, nil
	}
	n, _ := t.(*types.Named)
	return n, st.Field(fa.Field)
}

// c17FieldLoad: v is a load of a struct field (ptr=false) or a load through a
// pointer loaded from a struct field (ptr=true).
func c17FieldLoad(v ssa.Value) (fa *ssa.FieldAddr, ptr, ok bool) {
	u, isU := v.(*ssa.UnOp)
	if !isU || u.Op != token.MUL {
		return nil, false, false
	}
	if a, isFA := u.X.(*ssa.FieldAddr); isFA {
		return a, false, true
	}
	if in, isU2 := u.X.(*ssa.UnOp); isU2 && in.Op == token.MUL {
		if a, isFA := in.X.(*ssa.FieldAddr); isFA {
			return a, true, true
		}
	}
	return nil, false, false
}

func (s *c17Sec) describe(v ssa.Value) string {
	switch x := v.(type) {
	case *ssa.UnOp:
		if x.Op == token.MUL {
			if g, ok := x.X.(*ssa.Global); ok {
				return "global:" + RelPkg(g.Pkg.Pkg) + "." + g.Name()
			}
			if fa, _, ok := c17FieldLoad(x); ok {
				if n, fv := c17FieldOf(fa); fv != nil {
					if n != nil {
						return n.Obj().Name() + "." + fv.Name()
					}
					return "field." + fv.Name()
				}
			}
		}
	case *ssa.Call:
		cs := CallSite{x.Parent(), x}
		return cs.CalleeKey() + "()"
	case *ssa.Parameter:
		return "param:" + x.Name()
	}
	ap := AccessPath(v)
	if strings.HasPrefix(ap, "?") {
		return "expr:" + v.Name()
	}
	return ap
}

// ---- non-emptiness -----------------------------------------------------------

func c17RootFrame(fn *ssa.Function) *c17Frame { return &c17Frame{fn: fn} }

// samePlace: a and v denote the same value: same origin, or the same
// parameter-rooted field path / global with no store to that place in fn.
func (s *c17Sec) samePlace(a, v ssa.Value) bool {
	a = c17StripConv(a)
	if sameOrigin(a, v) {
		return true
	}
	pa, pv := AccessPath(a), AccessPath(v)
	if pa != pv || strings.Contains(pa, "?") || strings.HasPrefix(pa, "const:") {
		return false
	}
	if !strings.Contains(pa, ".") { // only fields and globals; locals are handled by sameOrigin
		return false
	}
	// no store to the place between the two reads: require none in the function
	var fn *ssa.Function
	if in, ok := v.(ssa.Instruction); ok {
		fn = in.Parent()
	}
	if fn == nil {
		return false
	}
	for _, b := range fn.Blocks {
		for _, in := range b.Instrs {
			if st, ok := in.(*ssa.Store); ok && AccessPath(st.Addr) == "&"+pa {
				return false
			}
		}
	}
	return true
}

// factNonEmpty: does the branch fact (cond == val) imply that v is non-empty?
func (s *c17Sec) factNonEmpty(cond ssa.Value, val bool, v ssa.Value) bool {
	cond, val = c17StripNot(cond, val)
	switch c := cond.(type) {
	case *ssa.BinOp:
		// v != "" / v == "non-empty"
		if c.Op == token.EQL || c.Op == token.NEQ {
			for _, side := range []int{0, 1} {
				kv, ov := c.X, c.Y
				if side == 1 {
					kv, ov = c.Y, c.X
				}
				if k, ok := ConstString(kv); ok && s.samePlace(ov, v) {
					if k == "" {
						return (c.Op == token.NEQ) == val
					}
					return (c.Op == token.EQL) == val
				}
			}
		}
		// len(v) <op> k
		for _, side := range []int{0, 1} {
			lv, kv, op := c.X, c.Y, c.Op
			if side == 1 {
				lv, kv, op = c.Y, c.X, c17FlipOp(c.Op)
			}
			arg, isLen := c17IsBuiltinLen(lv)
			k, isK := ConstInt(kv)
			if !isLen || !isK || !s.samePlace(arg, v) {
				continue
			}
			if at0, ok := c17IntOp(op, 0, k); ok && at0 != val {
				return true // the fact is false for length 0
			}
		}
	case *ssa.Call:
		if !val {
			return false
		}
		cs := CallSite{c.Parent(), c}
		for _, bc := range c17BoolComparators {
			if bc.prefixLike && cs.IsStatic(bc.pkg, "", bc.name) && len(c.Call.Args) == 2 {
				if k, ok := ConstString(c.Call.Args[1]); ok && k != "" && s.samePlace(c.Call.Args[0], v) {
					return true
				}
			}
		}
	}
	return false
}

// varargsElems returns the values stored in the elements of a varargs slice.
func c17VarargsElems(v ssa.Value) []ssa.Value {
	sl, ok := v.(*ssa.Slice)
	if !ok {
		return nil
	}
	al, ok := sl.X.(*ssa.Alloc)
	if !ok || al.Referrers() == nil {
		return nil
	}
	byIdx := map[int64]ssa.Value{}
	var max int64 = -1
	for _, ref := range *al.Referrers() {
		ia, ok := ref.(*ssa.IndexAddr)
		if !ok || ia.Referrers() == nil {
			continue
		}
		idx, ok := ConstInt(ia.Index)
		if !ok {
			return nil
		}
		for _, rr := range *ia.Referrers() {
			if st, ok := rr.(*ssa.Store); ok && st.Addr == ssa.Value(ia) {
				byIdx[idx] = st.Val
				if idx > max {
					max = idx
				}
			}
		}
	}
	out := make([]ssa.Value, max+1)
	for i := range out {
		out[i] = byIdx[int64(i)]
	}
	return out
}

func (s *c17Sec) sprintfNonEmpty(call *ssa.Call, f *c17Frame, at *ssa.BasicBlock, d int) (bool, string) {
	if len(call.Call.Args) < 1 {
		return false, "fmt.Sprintf without format"
	}
	format, ok := ConstString(call.Call.Args[0])
	if !ok {
		return false, "fmt.Sprintf with a non-constant format"
	}
	var elems []ssa.Value
	if len(call.Call.Args) > 1 {
		elems = c17VarargsElems(call.Call.Args[1])
	}
	argi := 0
	for i := 0; i < len(format); i++ {
		if format[i] != '%' {
			return true, "format has literal text"
		}
		if i+1 >= len(format) {
			return false, "malformed format"
		}
		i++
		switch format[i] {
		case '%':
			return true, "format has literal text"
		case 'd', 'q', 't', 'p', 'T':
			return true, "verb always prints"
		case 'x', 'X', 's', 'v':
			if argi < len(elems) && elems[argi] != nil {
				if ok, why := s.nonEmpty(elems[argi], f, at, d+1); ok {
					return true, "formats " + why
				}
			}
			argi++
		default:
			return false, "format verb with flags/width is not followed"
		}
	}
	return false, "every formatted operand may be empty"
}

func (s *c17Sec) nonEmpty(v ssa.Value, f *c17Frame, at *ssa.BasicBlock, d int) (bool, string) {
	if d > 14 || v == nil {
		return false, "derivation too deep"
	}
	v = c17StripConv(v)
	if k, ok := v.(*ssa.Const); ok {
		if k.Value != nil && k.Value.Kind() == constant.String {
			if constant.StringVal(k.Value) != "" {
				return true, "non-empty constant"
			}
			return false, "the empty constant"
		}
		return false, "constant zero value"
	}
	if at != nil && at.Parent() == f.fn {
		for _, fc := range FactsAt(at) {
			if s.factNonEmpty(fc.Cond, fc.Val, v) {
				return true, "checked non-empty on every path to the comparison (" + s.describe(v) + ")"
			}
		}
	}
	switch x := v.(type) {
	case *ssa.Phi:
		for i, e := range x.Edges {
			if e == ssa.Value(x) {
				continue
			}
			if ok, why := s.nonEmpty(e, f, x.Block().Preds[i], d+1); !ok {
				return false, why
			}
		}
		return true, "non-empty on every incoming edge"
	case *ssa.BinOp:
		if x.Op == token.ADD && c17StringLike(x.Type()) {
			if ok, why := s.nonEmpty(x.X, f, at, d+1); ok {
				return true, "concatenation with " + why
			}
			if ok, why := s.nonEmpty(x.Y, f, at, d+1); ok {
				return true, "concatenation with " + why
			}
			return false, "concatenation of possibly empty strings"
		}
	case *ssa.Parameter:
		if a := f.argFor(x); a != nil {
			return s.nonEmpty(a, f.parent, f.call.Block(), d+1)
		}
		if x.Parent() != f.fn || f.call != nil {
			return false, "parameter " + x.Name() + " of an enclosing function"
		}
		// root frame: every caller must pass a non-empty value
		fn := f.fn
		if fn.Parent() != nil {
			return false, "parameter of a function literal"
		}
		if uses := s.p.FuncValueUses(fn); len(uses) > 0 {
			return false, "parameter " + x.Name() + " of " + FuncKey(fn) + ", which is also used as a function value (" + s.p.Pos(uses[0].Pos()) + "): callers unknown"
		}
		callers := s.p.StaticCallers(fn)
		if len(callers) == 0 {
			return false, "parameter " + x.Name() + " of " + FuncKey(fn) + " (no static caller)"
		}
		idx := -1
		for i, fp := range fn.Params {
			if fp == x {
				idx = i
			}
		}
		for _, c := range callers {
			if IsTestSupportPkg(RelPkg(TopFunc(c.Fn).Pkg.Pkg)) {
				continue
			}
			args := c.Common().Args
			if idx < 0 || idx >= len(args) {
				return false, "parameter " + x.Name() + " of " + FuncKey(fn) + ": caller shape not followed"
			}
			if ok, why := s.nonEmpty(args[idx], c17RootFrame(c.Fn), c.Block(), d+2); !ok {
				return false, "parameter " + x.Name() + " of " + FuncKey(fn) + " <- " + FuncKey(c.Fn) + ": " + why
			}
		}
		return true, "every caller of " + FuncKey(fn) + " passes a non-empty " + x.Name()
	case *ssa.MakeSlice:
		lv, _ := s.resolve(x.Len, f)
		if n, ok := ConstInt(lv); ok && n > 0 {
			return true, fmt.Sprintf("buffer of %d bytes", n)
		}
		return false, "buffer length not a positive constant"
	case *ssa.Call:
		cs := CallSite{x.Parent(), x}
		callee := cs.Callee()
		if callee == nil {
			return false, "result of a dynamic call " + cs.CalleeKey()
		}
		switch {
		case funcIs(callee, "fmt", "", "Sprintf"):
			return s.sprintfNonEmpty(x, f, at, d)
		case funcIs(callee, "encoding/hex", "", "EncodeToString") && len(x.Call.Args) == 1:
			ok, why := s.nonEmpty(x.Call.Args[0], f, at, d+1)
			return ok, "hex of " + why
		case funcIs(callee, "encoding/base64", "Encoding", "EncodeToString") && len(x.Call.Args) == 2:
			ok, why := s.nonEmpty(x.Call.Args[1], f, at, d+1)
			return ok, "base64 of " + why
		case funcIs(callee, "crypto/rand", "", "Text"):
			return true, "crypto/rand.Text()"
		case (funcIs(callee, "strings", "", "ToLower") || funcIs(callee, "strings", "", "ToUpper")) && len(x.Call.Args) == 1:
			return s.nonEmpty(x.Call.Args[0], f, at, d+1)
		}
		if !InModule(callee) || len(callee.Blocks) == 0 {
			return false, "result of " + cs.CalleeKey() + " (not followed)"
		}
		if callee.Signature.Results().Len() != 1 {
			return false, "one of several results of " + cs.CalleeKey()
		}
		if f.inChain(callee) || f.depth > 6 {
			return false, "recursive " + cs.CalleeKey()
		}
		nf := &c17Frame{fn: callee, call: x, parent: f, depth: f.depth + 1}
		rets := Returns(callee)
		if len(rets) == 0 {
			return false, cs.CalleeKey() + " never returns"
		}
		var whys []string
		for _, ri := range rets {
			ok, why := s.nonEmpty(ri.Results[0], nf, ri.Ret.Block(), d+1)
			if !ok {
				return false, "a return of " + cs.CalleeKey() + ": " + why
			}
			whys = append(whys, why)
		}
		return true, "result of " + cs.CalleeKey() + " [" + strings.Join(c17Uniq(whys), "; ") + "]"
	case *ssa.UnOp:
		if x.Op != token.MUL {
			break
		}
		if g, ok := x.X.(*ssa.Global); ok {
			return s.globalNonEmptyAt(g, x)
		}
		if fa, ptr, ok := c17FieldLoad(x); ok {
			return s.fieldNonEmpty(fa, ptr)
		}
		if al, ok := x.X.(*ssa.Alloc); ok {
			sts := storesTo(al)
			if len(sts) == 0 || !plainVariable(al) {
				return false, "local " + al.Comment + " not followed"
			}
			for _, st := range sts {
				if st.Parent() != f.fn {
					return false, "local " + al.Comment + " written in a function literal"
				}
				if ok, why := s.nonEmpty(st.Val, f, st.Block(), d+1); !ok {
					return false, "local " + al.Comment + ": " + why
				}
			}
			// some store must precede the load, otherwise the zero value is visible
			for _, st := range sts {
				if Precedes(st, x) {
					return true, "every assignment of " + al.Comment + " is non-empty"
				}
			}
			return false, "local " + al.Comment + " may still hold its zero value"
		}
	}
	return false, "cannot prove " + s.describe(v) + " non-empty"
}

// ---- presence of the request-side operand ----------------------------------
//
// A configured secret (a field of the auth mode) may legitimately be whatever
// the operator wrote. What the property needs is that a request WITHOUT
// credentials cannot reach the success edge: the request-side operand must
// come from a credential-carrying header that was successfully parsed on that
// path (so it is not the "" an absent header/form value reads as).

// present: v is a result of a parse of the request that reported success on
// every path to block at.
func (s *c17Sec) present(v ssa.Value, f *c17Frame, at *ssa.BasicBlock, d int) (bool, string) {
	if d > 8 || v == nil {
		return false, ""
	}
	v = c17StripConv(v)
	switch x := v.(type) {
	case *ssa.Parameter:
		if a := f.argFor(x); a != nil {
			return s.present(a, f.parent, f.call.Block(), d+1)
		}
	case *ssa.Phi:
		for i, e := range x.Edges {
			if ok, _ := s.present(e, f, x.Block().Preds[i], d+1); !ok {
				return false, ""
			}
		}
		return true, "present on every incoming edge"
	case *ssa.Extract:
		call, ok := x.Tuple.(*ssa.Call)
		if !ok || at == nil || at.Parent() != call.Parent() {
			return false, ""
		}
		cs := CallSite{call.Parent(), call}
		callee := cs.Callee()
		if callee == nil {
			return false, ""
		}
		res := call.Call.Signature().Results()
		// (*http.Request).BasicAuth: ok == true
		if funcIs(callee, "net/http", "Request", "BasicAuth") {
			okv := ResultValue(call, res.Len()-1)
			for _, fc := range FactsAt(at) {
				c, val := c17StripNot(fc.Cond, fc.Val)
				if okv != nil && sameOrigin(c, okv) && val {
					return true, "parsed by (*http.Request).BasicAuth with ok==true"
				}
			}
			return false, ""
		}
		// a module parser of the request that returned a nil error, and that
		// returns an error whenever the header it reads is absent
		if !InModule(callee) || len(callee.Blocks) == 0 {
			return false, ""
		}
		ev, hasErr, discarded := ErrValue(call)
		if !hasErr || discarded {
			return false, ""
		}
		if k, isNil := NilFact(at, ev); !(k && isNil) {
			return false, ""
		}
		reqArg := false
		for _, a := range call.Call.Args {
			if s.reqDerived(a, f) {
				reqArg = true
			}
		}
		if !reqArg {
			return false, ""
		}
		if ok, why := s.reportsAbsence(callee); ok {
			return true, "parsed by " + FuncKey(callee) + " with err==nil (" + why + ")"
		}
	case *ssa.UnOp:
		// matches[i] of re.FindStringSubmatch(requestValue) under a length
		// check, where re cannot match the empty string
		if x.Op != token.MUL {
			break
		}
		ia, ok := x.X.(*ssa.IndexAddr)
		if !ok {
			break
		}
		call, ok := originValue(ia.X).(*ssa.Call)
		if !ok || at == nil || at.Parent() != call.Parent() {
			break
		}
		cs := CallSite{call.Parent(), call}
		if !(cs.IsStatic("regexp", "Regexp", "FindStringSubmatch") || cs.IsStatic("regexp", "Regexp", "FindSubmatch")) || len(call.Call.Args) != 2 {
			break
		}
		if !s.reqDerived(call.Call.Args[1], f) {
			break
		}
		matched := false
		for _, fc := range FactsAt(at) {
			if s.factNonEmpty(fc.Cond, fc.Val, call) {
				matched = true
			}
		}
		if !matched {
			break
		}
		pat, ok := s.regexpPattern(call.Call.Args[0])
		if !ok {
			break
		}
		re, err := syntax.Parse(pat, syntax.Perl)
		if err != nil || c17RegexpMinLen(re) == 0 {
			break
		}
		return true, "submatch of a request header against a pattern that cannot match an absent (empty) value"
	}
	return false, ""
}

// regexpPattern: v is a load of a module package variable assigned exactly
// once, in the package initialiser, from regexp.MustCompile(constant).
func (s *c17Sec) regexpPattern(v ssa.Value) (string, bool) {
	ld, ok := originValue(v).(*ssa.UnOp)
	if !ok || ld.Op != token.MUL {
		return "", false
	}
	g, ok := ld.X.(*ssa.Global)
	if !ok || g.Pkg == nil || !strings.HasPrefix(g.Pkg.Pkg.Path(), modPrefix) {
		return "", false
	}
	var val ssa.Value
	n := 0
	for _, fn := range s.scanFuncs(g) {
		for _, b := range fn.Blocks {
			for _, in := range b.Instrs {
				for _, op := range in.Operands(nil) {
					if *op != ssa.Value(g) {
						continue
					}
					switch x := in.(type) {
					case *ssa.UnOp:
						if x.Op == token.MUL {
							continue
						}
					case *ssa.DebugRef:
						continue
					case *ssa.Store:
						if x.Addr == ssa.Value(g) && fn.Synthetic != "" && fn.Name() == "init" {
							val = x.Val
							n++
							continue
						}
					}
					return "", false
				}
			}
		}
	}
	if n != 1 {
		return "", false
	}
	call, ok := originValue(val).(*ssa.Call)
	if !ok || len(call.Call.Args) != 1 {
		return "", false
	}
	cs := CallSite{call.Parent(), call}
	if !cs.IsStatic("regexp", "", "MustCompile") {
		return "", false
	}
	return ConstString(call.Call.Args[0])
}

// c17RegexpMinLen: the length of the shortest string the expression matches.
func c17RegexpMinLen(re *syntax.Regexp) int {
	switch re.Op {
	case syntax.OpLiteral:
		return len(re.Rune)
	case syntax.OpCharClass, syntax.OpAnyChar, syntax.OpAnyCharNotNL:
		return 1
	case syntax.OpCapture, syntax.OpPlus:
		return c17RegexpMinLen(re.Sub[0])
	case syntax.OpRepeat:
		return re.Min * c17RegexpMinLen(re.Sub[0])
	case syntax.OpConcat:
		n := 0
		for _, sub := range re.Sub {
			n += c17RegexpMinLen(sub)
		}
		return n
	case syntax.OpAlternate:
		min := -1
		for _, sub := range re.Sub {
			if m := c17RegexpMinLen(sub); min < 0 || m < min {
				min = m
			}
		}
		if min < 0 {
			return 0
		}
		return min
	}
	return 0 // star, quest, empty-width assertions, no-match
}

// reportsAbsence: every return of fn whose error may be nil lies behind a
// check that a request-derived string read in fn is non-empty, i.e. fn
// reports an error when the header/form value it parses is absent.
func (s *c17Sec) reportsAbsence(fn *ssa.Function) (bool, string) {
	if pr, ok := s.absenceMemo[fn]; ok {
		return pr.ok, pr.why
	}
	s.absenceMemo[fn] = c17Proof{}
	f := c17RootFrame(fn)
	var srcs []ssa.Value
	for _, c := range CallsIn(fn, false) {
		if call := c.Value(); call != nil && c17StringLike(call.Type()) && s.reqDerived(call, f) {
			srcs = append(srcs, call)
		}
	}
	nrs := MaybeNilErrorReturns(fn)
	if len(nrs) == 0 || len(srcs) == 0 {
		return false, ""
	}
	why := ""
	for _, nr := range nrs {
		guarded := false
		blocks := []*ssa.BasicBlock{nr.Ret.Block()}
		if nr.From != nil && nr.From != nr.Ret.Block() {
			blocks = append(blocks, nr.From)
		}
		for _, b := range blocks {
			for _, fc := range FactsAt(b) {
				for _, src := range srcs {
					if s.factNonEmpty(fc.Cond, fc.Val, src) {
						guarded = true
						why = "it fails unless " + (CallSite{fn, src.(*ssa.Call)}).CalleeKey() + " yields a non-empty value"
					}
				}
			}
		}
		if !guarded {
			return false, ""
		}
	}
	s.absenceMemo[fn] = c17Proof{true, why}
	return true, why
}

// configSecret: the resolved secret is a field of an auth mode.
func (s *c17Sec) configSecret(v ssa.Value) bool {
	fa, _, ok := c17FieldLoad(v)
	if !ok {
		return false
	}
	n, _ := c17FieldOf(fa)
	return n != nil && s.authTypes[n]
}

// ---- package-level secrets -------------------------------------------------

type c17GlobalInfo struct {
	ok        bool   // every writer stores a non-empty value, address never escapes
	why       string // reason when !ok, summary otherwise
	initStore bool   // written by the package initialiser
	writers   []*ssa.Store
}

func (s *c17Sec) pkgFuncs(pkg *ssa.Package) []*ssa.Function {
	fns := append([]*ssa.Function(nil), s.p.FuncsIn(RelPkg(pkg.Pkg))...)
	if in := pkg.Func("init"); in != nil {
		fns = append(fns, in)
	}
	return fns
}

func (s *c17Sec) scanFuncs(g *ssa.Global) []*ssa.Function {
	if obj := g.Object(); obj != nil && !obj.Exported() {
		return s.pkgFuncs(g.Pkg)
	}
	fns := append([]*ssa.Function(nil), s.p.AllFuncs...)
	if in := g.Pkg.Func("init"); in != nil {
		fns = append(fns, in)
	}
	return fns
}

func (s *c17Sec) globalInfo(g *ssa.Global) *c17GlobalInfo {
	if gi, ok := s.globalMemo[g]; ok {
		return gi
	}
	gi := &c17GlobalInfo{ok: true}
	s.globalMemo[g] = gi
	name := RelPkg(g.Pkg.Pkg) + "." + g.Name()
	for _, fn := range s.scanFuncs(g) {
		for _, b := range fn.Blocks {
			for _, in := range b.Instrs {
				uses := false
				for _, op := range in.Operands(nil) {
					if *op == ssa.Value(g) {
						uses = true
					}
				}
				if !uses {
					continue
				}
				switch x := in.(type) {
				case *ssa.UnOp:
					if x.Op == token.MUL {
						continue
					}
				case *ssa.Store:
					if x.Addr == ssa.Value(g) && x.Val != ssa.Value(g) {
						gi.writers = append(gi.writers, x)
						if fn.Synthetic != "" && fn.Name() == "init" {
							gi.initStore = true
						}
						continue
					}
				case *ssa.DebugRef:
					continue
				}
				gi.ok = false
				gi.why = "the address of " + name + " escapes in " + FuncKey(fn) + " (" + s.p.Pos(in.Pos()) + ")"
				return gi
			}
		}
	}
	if len(gi.writers) == 0 {
		gi.ok, gi.why = false, name+" is never assigned"
		return gi
	}
	var whys []string
	for _, st := range gi.writers {
		fn := st.Parent()
		ok, why := s.nonEmpty(st.Val, c17RootFrame(fn), st.Block(), 2)
		if !ok {
			gi.ok, gi.why = false, FuncKey(fn)+" may store an empty value into "+name+": "+why
			return gi
		}
		minted := !(fn.Synthetic != "" && fn.Name() == "init")
		if _, isConst := c17StripConv(st.Val).(*ssa.Const); isConst {
			minted = false
		}
		if minted && !s.fromCryptoRand(st.Val, 0) {
			gi.ok, gi.why = false, FuncKey(fn)+" stores a value into "+name+" that does not derive from crypto/rand: the run-time minted secret is guessable"
			return gi
		}
		whys = append(whys, FuncKey(fn)+" stores "+why)
	}
	gi.why = strings.Join(c17Uniq(whys), "; ")
	return gi
}

// fromCryptoRand: v derives from a crypto/rand source.
func (s *c17Sec) fromCryptoRand(v ssa.Value, d int) bool {
	if d > 4 {
		return false
	}
	return c17DependsOn(v, func(x ssa.Value) bool {
		switch c := x.(type) {
		case *ssa.Call:
			cs := CallSite{c.Parent(), c}
			callee := cs.Callee()
			if callee == nil {
				return false
			}
			if funcIs(callee, "crypto/rand", "", "Text") || funcIs(callee, "crypto/rand", "", "Int") || funcIs(callee, "crypto/rand", "", "Prime") {
				return true
			}
			if InModule(callee) && len(callee.Blocks) > 0 && callee.Signature.Results().Len() == 1 && !s.busy[callee] {
				s.busy[callee] = true
				defer delete(s.busy, callee)
				rets := Returns(callee)
				if len(rets) == 0 {
					return false
				}
				for _, ri := range rets {
					if !s.fromCryptoRand(ri.Results[0], d+1) {
						return false
					}
				}
				return true
			}
		case *ssa.MakeSlice, *ssa.Alloc:
			in := x.(ssa.Instruction)
			for _, cs := range CallsIn(in.Parent(), false) {
				args := cs.Common().Args
				switch {
				case cs.IsStatic("crypto/rand", "", "Read") && len(args) == 1:
					if sameOrigin(c17StripConv(args[0]), x) {
						return true
					}
				case cs.IsStatic("io", "", "ReadFull") && len(args) == 2:
					isRand := c17DependsOn(args[0], func(y ssa.Value) bool {
						g, ok := y.(*ssa.Global)
						return ok && g.Pkg != nil && g.Pkg.Pkg.Path() == "crypto/rand" && g.Name() == "Reader"
					})
					if isRand && sameOrigin(c17StripConv(args[1]), x) {
						return true
					}
				}
			}
		}
		return false
	})
}

// establishes: instruction in assigns g, or runs (through sync.Once.Do or a
// plain call) a function every return of which lies behind such an assignment.
func (s *c17Sec) establishes(in ssa.Instruction, g *ssa.Global, d int) (bool, string) {
	switch x := in.(type) {
	case *ssa.Store:
		if x.Addr == ssa.Value(g) {
			return true, "assigned in " + FuncKey(x.Parent())
		}
	case *ssa.Call:
		cs := CallSite{x.Parent(), x}
		if cs.IsStatic("sync", "Once", "Do") && len(x.Call.Args) == 2 {
			fv := c17FuncValue(x.Call.Args[1])
			if fv == nil {
				return false, ""
			}
			if ok, _ := s.alwaysEnsures(fv, g, d+1); !ok {
				return false, ""
			}
			cell, isVar := varOf(x.Call.Args[0])
			og, isGlobal := cell.(*ssa.Global)
			if !isVar || !isGlobal {
				return false, ""
			}
			// the same Once must not be consumed by a function that does not assign g
			for _, fn := range s.scanFuncs(og) {
				for _, oc := range CallsIn(fn, false) {
					if !oc.IsStatic("sync", "Once", "Do") || len(oc.Common().Args) != 2 {
						continue
					}
					if c2, ok := varOf(oc.Common().Args[0]); !ok || c2 != cell {
						continue
					}
					f2 := c17FuncValue(oc.Common().Args[1])
					if f2 == nil {
						return false, ""
					}
					if ok, _ := s.alwaysEnsures(f2, g, d+1); !ok {
						return false, ""
					}
				}
			}
			return true, og.Name() + ".Do(" + FuncKey(fv) + ")"
		}
		if callee := cs.Callee(); callee != nil && InModule(callee) && len(callee.Blocks) > 0 {
			if ok, why := s.alwaysEnsures(callee, g, d+1); ok {
				return true, FuncKey(callee) + " [" + why + "]"
			}
		}
	}
	return false, ""
}

func c17FuncValue(v ssa.Value) *ssa.Function {
	switch x := originValue(v).(type) {
	case *ssa.Function:
		return x
	case *ssa.MakeClosure:
		f, _ := x.Fn.(*ssa.Function)
		return f
	}
	return nil
}

// alwaysEnsures: every return of fn is dominated by an instruction that
// establishes g.
func (s *c17Sec) alwaysEnsures(fn *ssa.Function, g *ssa.Global, d int) (bool, string) {
	if d > 4 || len(fn.Blocks) == 0 {
		return false, ""
	}
	rets := Returns(fn)
	if len(rets) == 0 {
		return false, ""
	}
	for _, b := range fn.Blocks {
		for _, in := range b.Instrs {
			ok, why := s.establishes(in, g, d)
			if !ok {
				continue
			}
			all := true
			for _, ri := range rets {
				if !Precedes(in, ri.Ret) {
					all = false
				}
			}
			if all {
				return true, why
			}
		}
	}
	return false, ""
}

// globalNonEmptyAt: the load ld of package variable g yields a non-empty value.
func (s *c17Sec) globalNonEmptyAt(g *ssa.Global, ld *ssa.UnOp) (bool, string) {
	name := RelPkg(g.Pkg.Pkg) + "." + g.Name()
	if g.Pkg == nil || !strings.HasPrefix(g.Pkg.Pkg.Path(), modPrefix) {
		return false, "package variable " + name + " outside the module"
	}
	gi := s.globalInfo(g)
	if !gi.ok {
		return false, gi.why
	}
	if gi.initStore {
		return true, name + " is initialised at program start and only ever assigned non-empty values [" + gi.why + "]"
	}
	fn := ld.Parent()
	for _, b := range fn.Blocks {
		if !(b == ld.Block() || b.Dominates(ld.Block())) {
			continue
		}
		for _, in := range b.Instrs {
			if !Precedes(in, ld) {
				continue
			}
			if ok, why := s.establishes(in, g, 0); ok {
				return true, name + " is read after " + why + " on every path [" + gi.why + "]"
			}
		}
	}
	var ws []string
	for _, st := range gi.writers {
		ws = append(ws, FuncKey(st.Parent()))
	}
	return false, "secret may still be empty: " + name + " is read directly in " + FuncKey(fn) + " without a preceding initialisation; it is only assigned lazily (in " + strings.Join(c17Uniq(ws), ", ") + ") and holds \"\" until then"
}

// ---- configured secrets (struct fields) -------------------------------------

func (s *c17Sec) fieldNonEmpty(fa *ssa.FieldAddr, ptr bool) (bool, string) {
	owner, fv := c17FieldOf(fa)
	if fv == nil {
		return false, "field not resolved"
	}
	oname := "struct"
	if owner != nil {
		oname = owner.Obj().Name()
	}
	key := fmt.Sprintf("%s.%s/%v/%p", oname, fv.Name(), ptr, fv)
	if pr, ok := s.fieldMemo[key]; ok {
		return pr.ok, pr.why
	}
	s.fieldMemo[key] = c17Proof{false, "recursive field derivation"}
	ok, why := s.fieldNonEmpty1(owner, fv, oname, ptr)
	s.fieldMemo[key] = c17Proof{ok, why}
	return ok, why
}

func (s *c17Sec) fieldNonEmpty1(owner *types.Named, fv *types.Var, oname string, ptr bool) (bool, string) {
	fname := oname + "." + fv.Name()
	nWriters := 0
	var whys []string
	for _, fn := range s.p.AllFuncs {
		if IsTestSupportPkg(RelPkg(TopFunc(fn).Pkg.Pkg)) {
			continue
		}
		for _, b := range fn.Blocks {
			for _, in := range b.Instrs {
				switch x := in.(type) {
				case *ssa.FieldAddr:
					if _, v2 := c17FieldOf(x); v2 != fv || x.Referrers() == nil {
						continue
					}
					for _, ref := range *x.Referrers() {
						st, ok := ref.(*ssa.Store)
						if !ok || st.Addr != ssa.Value(x) {
							continue
						}
						nWriters++
						val := st.Val
						if ptr {
							if IsNilConst(val) {
								continue
							}
							al, isAl := c17StripConv(val).(*ssa.Alloc)
							if !isAl || al.Referrers() == nil {
								return false, fname + " is set in " + FuncKey(fn) + " to a pointer that is not followed"
							}
							n := 0
							for _, ar := range *al.Referrers() {
								switch y := ar.(type) {
								case *ssa.Store:
									if y.Addr == ssa.Value(al) {
										n++
										if ok, why := s.nonEmpty(y.Val, c17RootFrame(y.Parent()), y.Block(), 3); !ok {
											return false, fname + " is set in " + FuncKey(fn) + " to a possibly empty value: " + why
										} else {
											whys = append(whys, FuncKey(fn)+": "+why)
										}
									}
								case *ssa.UnOp, *ssa.DebugRef:
								default:
									return false, fname + " points to a variable of " + FuncKey(fn) + " whose address escapes"
								}
							}
							if n == 0 {
								return false, fname + " points to a variable of " + FuncKey(fn) + " that is never assigned"
							}
							continue
						}
						if ok, why := s.nonEmpty(val, c17RootFrame(fn), st.Block(), 3); !ok {
							return false, fname + " is set in " + FuncKey(fn) + " (" + s.p.Pos(st.Pos()) + ") to a possibly empty value: " + why
						} else {
							whys = append(whys, FuncKey(fn)+": "+why)
						}
					}
				case *ssa.Alloc:
					// a value of the owning type created without setting the field holds ""
					if ptr || owner == nil {
						continue
					}
					pt, ok := x.Type().Underlying().(*types.Pointer)
					if !ok || !types.Identical(pt.Elem(), owner) || x.Referrers() == nil {
						continue
					}
					set := false
					for _, ref := range *x.Referrers() {
						if a2, ok := ref.(*ssa.FieldAddr); ok && a2.Referrers() != nil {
							if _, v2 := c17FieldOf(a2); v2 == fv {
								for _, rr := range *a2.Referrers() {
									if st, ok := rr.(*ssa.Store); ok && st.Addr == ssa.Value(a2) {
										set = true
									}
								}
							}
						}
						if st, ok := ref.(*ssa.Store); ok && st.Addr == ssa.Value(x) {
							set = true // whole-value copy: covered by the source value's own creation
						}
					}
					if !set {
						return false, "a " + oname + " is created in " + FuncKey(fn) + " (" + s.p.Pos(x.Pos()) + ") without setting " + fv.Name()
					}
				}
			}
		}
	}
	if nWriters == 0 {
		return false, fname + " is never assigned"
	}
	return true, "every assignment of " + fname + " stores a non-empty value [" + strings.Join(c17Uniq(whys), "; ") + "]"
}

// ---- atoms and evaluation ----------------------------------------------------

type c17HelperRes struct {
	kind  c17Kind
	descr []string
	recs  []*c17SiteRec
}

type c17Eval struct {
	s     *c17Sec
	f     *c17Frame
	atoms []*c17Atom
	idx   map[ssa.Value]*c17Atom
	bad   string // non-empty: the function could not be followed
}

func c17IsBool(t types.Type) bool {
	b, ok := t.Underlying().(*types.Basic)
	return ok && b.Info()&types.IsBoolean != 0
}

// leaves splits a boolean value into atoms.
func (e *c17Eval) leaves(v ssa.Value, seen map[ssa.Value]bool) {
	if v == nil || seen[v] {
		return
	}
	seen[v] = true
	switch x := v.(type) {
	case *ssa.Const:
		return
	case *ssa.Phi:
		for _, ed := range x.Edges {
			e.leaves(ed, seen)
		}
		return
	case *ssa.UnOp:
		if x.Op == token.NOT {
			e.leaves(x.X, seen)
			return
		}
	case *ssa.BinOp:
		if c17IsBool(x.X.Type()) && c17IsBool(x.Y.Type()) {
			e.leaves(x.X, seen)
			e.leaves(x.Y, seen)
			return
		}
	}
	if _, ok := e.idx[v]; ok {
		return
	}
	a := e.s.classify(v, e.f)
	e.idx[v] = a
	e.atoms = append(e.atoms, a)
}

// c17IsIntLike: an integer-valued result such as auth.Operation.
func c17IsIntLike(t types.Type) bool {
	b, ok := t.Underlying().(*types.Basic)
	return ok && b.Info()&types.IsInteger != 0
}

// opLeaves finds the helper calls an Operation-valued result is made of.
func (e *c17Eval) opLeaves(v ssa.Value, seen map[ssa.Value]bool) {
	if v == nil || seen[v] {
		return
	}
	seen[v] = true
	switch x := v.(type) {
	case *ssa.Phi:
		for _, ed := range x.Edges {
			e.opLeaves(ed, seen)
		}
	case *ssa.BinOp:
		e.opLeaves(x.X, seen)
		e.opLeaves(x.Y, seen)
	case *ssa.ChangeType:
		e.opLeaves(x.X, seen)
	case *ssa.Convert:
		e.opLeaves(x.X, seen)
	case *ssa.Call:
		if _, ok := e.idx[v]; ok {
			return
		}
		a := e.s.classify(v, e.f)
		if _, followed := e.s.helperMemo[x]; followed {
			e.idx[v] = a
			e.atoms = append(e.atoms, a)
		}
	}
}

func (s *c17Sec) newEval(f *c17Frame) *c17Eval {
	e := &c17Eval{s: s, f: f, idx: map[ssa.Value]*c17Atom{}}
	fn := f.fn
	if fn.Recover != nil {
		e.bad = "function with defer/recover"
	}
	seen := map[ssa.Value]bool{}
	for _, b := range fn.Blocks {
		if len(b.Instrs) == 0 {
			continue
		}
		switch t := b.Instrs[len(b.Instrs)-1].(type) {
		case *ssa.If:
			e.leaves(t.Cond, seen)
		case *ssa.Return:
			if len(t.Results) != 1 {
				e.bad = "not a single-result function"
				continue
			}
			if rv := resolveReturnValue(t.Results[0], t); c17IsBool(rv.Type()) {
				e.leaves(rv, seen)
			} else {
				e.opLeaves(rv, seen)
			}
		}
	}
	// module calls that are not followed as bool helpers must not hide a
	// credential comparison (e.g. a helper returning an Operation or a tuple)
	for _, c := range CallsIn(fn, false) {
		callee := c.Callee()
		if callee == nil || !InModule(callee) {
			continue
		}
		if call := c.Value(); call != nil {
			if _, followed := s.helperMemo[call]; followed {
				continue
			}
		}
		if why := s.hides(callee, 0); why != "" {
			s.noteUndecided(FuncKey(fn)+"#call:"+FuncKey(callee), s.p.Pos(c.Pos()), "a credential comparison inside "+FuncKey(callee)+" is not followed (only helpers with a single bool/Operation result that feed the decision are): "+why)
		}
	}
	return e
}

type c17Run struct {
	ok    bool
	grant bool
	ret   *ssa.Return
	used  map[*c17Atom]bool
}

// run executes the function under an assignment of the atoms.
func (e *c17Eval) run(sigma func(*c17Atom) bool) c17Run {
	fn := e.f.fn
	res := c17Run{used: map[*c17Atom]bool{}}
	env := map[*ssa.Phi]ssa.Value{}
	var evalBool func(v ssa.Value, d int) (bool, bool)
	evalBool = func(v ssa.Value, d int) (bool, bool) {
		if d > 64 {
			return false, false
		}
		switch x := v.(type) {
		case *ssa.Const:
			if x.Value != nil && x.Value.Kind() == constant.Bool {
				return constant.BoolVal(x.Value), true
			}
			return false, false
		case *ssa.Phi:
			if ev, ok := env[x]; ok {
				return evalBool(ev, d+1)
			}
			return false, false
		case *ssa.UnOp:
			if x.Op == token.NOT {
				r, ok := evalBool(x.X, d+1)
				return !r, ok
			}
		case *ssa.BinOp:
			if c17IsBool(x.X.Type()) && c17IsBool(x.Y.Type()) {
				a, ok1 := evalBool(x.X, d+1)
				b, ok2 := evalBool(x.Y, d+1)
				if !ok1 || !ok2 {
					return false, false
				}
				switch x.Op {
				case token.EQL:
					return a == b, true
				case token.NEQ, token.XOR:
					return a != b, true
				case token.AND:
					return a && b, true
				case token.OR:
					return a || b, true
				}
				return false, false
			}
		}
		a, ok := e.idx[v]
		if !ok {
			return false, false
		}
		res.used[a] = true
		return sigma(a), true
	}
	var nonZero func(v ssa.Value, d int) bool
	nonZero = func(v ssa.Value, d int) bool {
		if d > 64 {
			return true
		}
		switch x := v.(type) {
		case *ssa.Const:
			if x.Value == nil {
				return false
			}
			if x.Value.Kind() == constant.Int {
				return constant.Sign(x.Value) != 0
			}
			return true
		case *ssa.Phi:
			if ev, ok := env[x]; ok {
				return nonZero(ev, d+1)
			}
		case *ssa.ChangeType:
			return nonZero(x.X, d+1)
		case *ssa.Convert:
			return nonZero(x.X, d+1)
		case *ssa.BinOp:
			switch x.Op {
			case token.OR, token.ADD, token.XOR:
				return nonZero(x.X, d+1) || nonZero(x.Y, d+1)
			case token.AND:
				return nonZero(x.X, d+1) && nonZero(x.Y, d+1)
			}
		case *ssa.Call:
			if a, ok := e.idx[v]; ok {
				res.used[a] = true
				return sigma(a)
			}
		}
		return true // a computed Operation: possibly non-zero
	}
	b := fn.Blocks[0]
	var prev *ssa.BasicBlock
	for steps := 0; steps < 4*len(fn.Blocks)+32; steps++ {
		if prev != nil {
			for _, in := range b.Instrs {
				ph, ok := in.(*ssa.Phi)
				if !ok {
					break
				}
				for i, pr := range b.Preds {
					if pr == prev {
						env[ph] = ph.Edges[i]
					}
				}
			}
		}
		if len(b.Instrs) == 0 {
			return res
		}
		var next *ssa.BasicBlock
		switch t := b.Instrs[len(b.Instrs)-1].(type) {
		case *ssa.Return:
			if len(t.Results) != 1 {
				return res
			}
			rv := resolveReturnValue(t.Results[0], t)
			res.ret = t
			if c17IsBool(rv.Type()) {
				g, ok := evalBool(rv, 0)
				res.ok, res.grant = ok, g
				return res
			}
			res.ok, res.grant = true, nonZero(rv, 0)
			return res
		case *ssa.Jump:
			next = b.Succs[0]
		case *ssa.If:
			c, ok := evalBool(t.Cond, 0)
			if !ok {
				return res
			}
			if c {
				next = b.Succs[0]
			} else {
				next = b.Succs[1]
			}
		case *ssa.Panic:
			res.ok = true // no result: the request is not served
			return res
		default:
			return res
		}
		prev, b = b, next
	}
	return res
}

const c17MaxAtoms = 16

// enumerate calls visit for every assignment of the free and weak atoms
// (strong comparisons fail). forceWeakFail additionally fails weak ones.
func (e *c17Eval) assignment(bits uint32, forceWeakFail bool) func(*c17Atom) bool {
	pos := map[*c17Atom]int{}
	n := 0
	for _, a := range e.atoms {
		if a.kind != c17Strong {
			pos[a] = n
			n++
		}
	}
	return func(a *c17Atom) bool {
		switch a.kind {
		case c17Strong:
			return !a.succ
		case c17Weak:
			if forceWeakFail {
				return !a.succ
			}
		}
		return bits&(1<<uint(pos[a])) != 0
	}
}

func (e *c17Eval) nEnum() int {
	n := 0
	for _, a := range e.atoms {
		if a.kind != c17Strong {
			n++
		}
	}
	return n
}

func (e *c17Eval) hasCredential() bool {
	for _, a := range e.atoms {
		if a.kind != c17Free {
			return true
		}
	}
	return false
}

type c17Witness struct {
	atoms []*c17Atom
	ret   *ssa.Return
}

// witnesses: minimal sets of weak comparisons whose success alone turns a
// refusal into a grant.
func (e *c17Eval) witnesses() (ws []c17Witness, canFree, canWeak bool, bad string) {
	if e.bad != "" {
		return nil, false, false, e.bad
	}
	n := e.nEnum()
	if n > c17MaxAtoms {
		return nil, false, false, fmt.Sprintf("%d independent conditions: too many to enumerate", n)
	}
	seen := map[string]bool{}
	for bits := uint32(0); bits < 1<<uint(n); bits++ {
		sg := e.assignment(bits, false)
		r1 := e.run(sg)
		if !r1.ok {
			return nil, false, false, "a path through " + FuncKey(e.f.fn) + " could not be followed"
		}
		if !r1.grant {
			continue
		}
		var w []*c17Atom
		for _, a := range e.atoms {
			if a.kind == c17Weak && r1.used[a] && sg(a) == a.succ {
				w = append(w, a)
			}
		}
		if len(w) == 0 {
			canFree = true
			continue
		}
		r2 := e.run(e.assignment(bits, true))
		if !r2.ok {
			return nil, false, false, "a path through " + FuncKey(e.f.fn) + " could not be followed"
		}
		if r2.grant {
			continue // granted anyway: the weak comparisons were incidental
		}
		canWeak = true
		var ks []string
		for _, a := range w {
			ks = append(ks, fmt.Sprintf("%p", a))
		}
		k := strings.Join(ks, ",")
		if !seen[k] {
			seen[k] = true
			ws = append(ws, c17Witness{w, r1.ret})
		}
	}
	// keep the minimal ones
	var min []c17Witness
	for i, w := range ws {
		minimal := true
		for j, o := range ws {
			if i != j && len(o.atoms) < len(w.atoms) && c17Subset(o.atoms, w.atoms) {
				minimal = false
			}
		}
		if minimal {
			min = append(min, w)
		}
	}
	return min, canFree, canWeak, ""
}

func c17Subset(a, b []*c17Atom) bool {
	for _, x := range a {
		found := false
		for _, y := range b {
			if x == y {
				found = true
			}
		}
		if !found {
			return false
		}
	}
	return true
}

func (s *c17Sec) recordSite(construct, site string, strong bool, why string) *c17SiteRec {
	rec, ok := s.sites[construct]
	if !ok {
		rec = &c17SiteRec{construct: construct, site: site, strong: strong, why: why}
		s.sites[construct] = rec
		s.siteOrder = append(s.siteOrder, construct)
		return rec
	}
	if rec.strong && !strong {
		rec.strong, rec.why = false, why
	}
	return rec
}

func (s *c17Sec) noteUndecided(construct, site, detail string) {
	if _, ok := s.undecided[construct]; !ok {
		s.undecided[construct] = detail
		s.undSite[construct] = site
	}
}

// classify turns a boolean leaf into an atom.
func (s *c17Sec) classify(v ssa.Value, f *c17Frame) *c17Atom {
	a := &c17Atom{v: v, kind: c17Free, succ: true}
	in, _ := v.(ssa.Instruction)
	cmp, ambiguous := c17AsComparison(v)
	if ambiguous && in != nil {
		s.noteUndecided(FuncKey(f.fn)+"#comparison", s.p.Pos(in.Pos()), "the result of a comparison function is tested in a way that does not separate equal from different")
		return a
	}
	if cmp != nil && in != nil {
		xr, yr := s.reqDerived(cmp.x, f), s.reqDerived(cmp.y, f)
		if xr == yr {
			return a
		}
		req, sec := cmp.x, cmp.y
		if yr {
			req, sec = cmp.y, cmp.x
		}
		secV, secF := s.resolve(sec, f)
		if _, isConst := secV.(*ssa.Const); isConst {
			return a // protocol syntax (method, header name), not a secret
		}
		s.nCmp++
		a.succ = cmp.succ
		at := in.Block()
		var strong bool
		var why string
		switch {
		case cmp.prefixLike:
			// true whenever the second operand is empty
			strong, why = s.nonEmpty(cmp.y, f, at, 0)
			if !strong {
				why = cmp.name + " is true for an empty second operand: " + why
			}
		default:
			strong, why = s.nonEmpty(sec, f, at, 0)
			if strong {
				why = "secret: " + why
			} else if ok2, why2 := s.nonEmpty(req, f, at, 0); ok2 {
				strong, why = true, "request operand: "+why2
			} else if s.configSecret(secV) {
				// a configured secret may be whatever the operator chose; what matters is
				// that a request without the credential cannot reach the success edge
				if ok3, why3 := s.present(req, f, at, 0); ok3 {
					strong, why = true, "configured secret; the request operand is present in the request: "+why3
				} else {
					why += "; and the request operand is not the result of a successful parse of a credential header (an absent header/form value reads as \"\")"
				}
			}
		}
		name := s.describe(secV)
		secFn := f.fn
		if secF != nil {
			secFn = secF.fn
		}
		construct := FuncKey(secFn) + "#secret:" + name
		rec := s.recordSite(construct, s.p.Pos(in.Pos()), strong, why)
		a.name = name
		a.recs = []*c17SiteRec{rec}
		if strong {
			a.kind = c17Strong
		} else {
			a.kind = c17Weak
			d := name
			if secFn != f.root().fn {
				d = FuncKey(secFn) + ":" + name
			}
			a.descr = []string{d}
		}
		return a
	}
	// helper returning a single bool
	if call, ok := v.(*ssa.Call); ok {
		cs := CallSite{call.Parent(), call}
		callee := cs.Callee()
		if callee == nil || !InModule(callee) || len(callee.Blocks) == 0 {
			return a
		}
		res := callee.Signature.Results()
		if res.Len() == 1 && (c17IsBool(res.At(0).Type()) || c17IsIntLike(res.At(0).Type())) && !f.inChain(callee) && f.depth < 5 {
			hr := s.helper(call, callee, f)
			a.kind, a.descr, a.recs = hr.kind, hr.descr, hr.recs
			a.name = FuncKey(callee)
			return a
		}
		if why := s.hides(callee, 0); why != "" {
			s.noteUndecided(FuncKey(f.fn)+"#call:"+FuncKey(callee), s.p.Pos(call.Pos()), "a credential comparison inside "+FuncKey(callee)+" is not followed: "+why)
		}
	}
	return a
}

func (s *c17Sec) helper(call *ssa.Call, callee *ssa.Function, f *c17Frame) *c17HelperRes {
	if hr, ok := s.helperMemo[call]; ok {
		return hr
	}
	hr := &c17HelperRes{kind: c17Free}
	s.helperMemo[call] = hr
	nf := &c17Frame{fn: callee, call: call, parent: f, depth: f.depth + 1}
	e := s.newEval(nf)
	ws, canFree, canWeak, bad := e.witnesses()
	if bad != "" {
		if e.hasCredential() {
			s.noteUndecided(FuncKey(callee)+"#paths", s.p.Pos(callee.Pos()), bad)
			hr.kind = c17Weak
			hr.descr = []string{FuncKey(callee) + ":unfollowed"}
		} else if why := s.hides(callee, 0); why != "" {
			s.noteUndecided(FuncKey(callee)+"#paths", s.p.Pos(callee.Pos()), bad+"; "+why)
		}
		return hr
	}
	switch {
	case canFree:
		hr.kind = c17Free
	case canWeak:
		hr.kind = c17Weak
		for _, w := range ws {
			for _, a := range w.atoms {
				hr.descr = append(hr.descr, a.descr...)
				hr.recs = append(hr.recs, a.recs...)
			}
		}
		hr.descr = c17Uniq(hr.descr)
	default:
		if e.hasCredential() {
			hr.kind = c17Strong
		}
	}
	return hr
}

// hides: fn (or a module function it calls) contains an equality test against
// a package-level string or a field of an auth mode; "" when it does not.
func (s *c17Sec) hides(fn *ssa.Function, d int) string {
	if d > 3 || fn == nil || !InModule(fn) {
		return ""
	}
	if why, ok := s.hideMemo[fn]; ok {
		return why
	}
	s.hideMemo[fn] = ""
	why := ""
	isSecretish := func(x ssa.Value) bool {
		switch y := x.(type) {
		case *ssa.Global:
			pt, ok := y.Type().Underlying().(*types.Pointer)
			return ok && c17StringLike(pt.Elem()) && y.Pkg != nil && strings.HasPrefix(y.Pkg.Pkg.Path(), modPrefix)
		case *ssa.FieldAddr:
			n, _ := c17FieldOf(y)
			return n != nil && s.authTypes[n]
		}
		return false
	}
	for _, b := range fn.Blocks {
		for _, in := range b.Instrs {
			v, ok := in.(ssa.Value)
			if !ok {
				continue
			}
			if cmp, _ := c17AsComparison(v); cmp != nil {
				if c17DependsOn(cmp.x, isSecretish) || c17DependsOn(cmp.y, isSecretish) {
					why = "comparison at " + s.p.Pos(in.Pos())
				}
			}
			if call, ok := in.(*ssa.Call); ok && why == "" {
				if callee := (CallSite{fn, call}).Callee(); callee != nil {
					if w := s.hides(callee, d+1); w != "" {
						why = w
					}
				}
			}
		}
	}
	s.hideMemo[fn] = why
	return why
}

func c17OpName(ret *ssa.Return) string {
	if ret == nil || len(ret.Results) != 1 {
		return "a non-zero Operation"
	}
	if k, ok := ret.Results[0].(*ssa.Const); ok && k.Value != nil {
		return "Operation " + k.Value.ExactString()
	}
	return "a non-zero Operation"
}

func c17RuleSecret(p *Program, r *Reporter) {
	const rule = "H-secret"
	r.Floor(rule, 12)
	s := &c17Sec{p: p, r: r,
		sites: map[string]*c17SiteRec{}, globalMemo: map[*ssa.Global]*c17GlobalInfo{}, fieldMemo: map[string]c17Proof{},
		busy: map[*ssa.Function]bool{}, helperMemo: map[*ssa.Call]*c17HelperRes{}, hideMemo: map[*ssa.Function]string{}, absenceMemo: map[*ssa.Function]c17Proof{},
		authTypes: map[*types.Named]bool{}, undecided: map[string]string{}, undSite: map[string]string{}}
	iface := p.Iface("pkg/auth", "AuthMode")
	impls := p.Implementers(iface, false)
	for _, n := range impls {
		s.authTypes[n] = true
	}
	nModes := 0
	for _, n := range impls {
		fn := c17Method(p, n, "AllowedAccess")
		if fn == nil {
			if any, _ := p.MethodOf(n, "AllowedAccess"); any == nil {
				brokenf("anchor unresolved: %s.AllowedAccess", n.Obj().Name())
			}
			continue // promoted from an embedded mode that is analysed itself
		}
		nModes++
		e := s.newEval(c17RootFrame(fn))
		construct := FuncKey(fn) + "#grants"
		site := p.Pos(fn.Pos())
		ws, _, _, bad := e.witnesses()
		if bad != "" {
			if e.hasCredential() || s.hides(fn, 0) != "" {
				r.Undecided(rule, construct, site, bad)
			} else {
				r.OKTable(rule, construct, site, "no credential comparison (mode does not compare request data with a secret)")
			}
			continue
		}
		if !e.hasCredential() {
			r.OKTable(rule, construct, site, "no credential comparison: the mode grants by design without comparing request data with a secret")
			continue
		}
		var strong, weak []string
		for _, a := range e.atoms {
			switch a.kind {
			case c17Strong:
				strong = append(strong, s.atomName(a))
			case c17Weak:
				weak = append(weak, strings.Join(a.descr, "|"))
			}
		}
		if len(ws) == 0 {
			d := fmt.Sprintf("over all %d assignments of its %d conditions with every strong comparison failing, no grant depends on a comparison with a possibly empty secret; strong: %s", 1<<uint(e.nEnum()), len(e.atoms), strings.Join(strong, ", "))
			if len(weak) > 0 {
				d += "; possibly-empty but never decisive: " + strings.Join(weak, ", ")
			}
			r.OK(rule, construct, site, d)
			continue
		}
		for _, w := range ws {
			var ds, whys []string
			for _, a := range w.atoms {
				ds = append(ds, a.descr...)
				for _, rec := range a.recs {
					if !rec.strong {
						rec.decisive = true
						whys = append(whys, strings.TrimPrefix(rec.construct[strings.Index(rec.construct, "#secret:"):], "#secret:")+": "+rec.why)
					}
				}
			}
			ds = c17Uniq(ds)
			rsite := site
			if w.ret != nil {
				rsite = p.Pos(w.ret.Pos())
			}
			r.Violation(rule, FuncKey(fn)+"#grant-by:"+strings.Join(ds, "+"), rsite,
				"a request that carries no credentials (an absent header/form value reads as \"\") is granted "+c17OpName(w.ret)+": the only comparisons it must pass are against secrets that may be empty ("+strings.Join(ds, ", ")+"), and \"\" == \"\" succeeds. "+strings.Join(c17Uniq(whys), " | "))
		}
	}
	for _, c := range s.siteOrder {
		rec := s.sites[c]
		switch {
		case rec.strong:
			r.OK(rule, c, rec.site, "a request without credentials cannot pass this comparison - "+rec.why)
		case !rec.decisive:
			r.OKTable(rule, c, rec.site, "possibly empty ("+rec.why+"), but every grant behind it also needs a comparison with a non-empty secret")
		}
	}
	var uks []string
	for c := range s.undecided {
		uks = append(uks, c)
	}
	sort.Strings(uks)
	for _, c := range uks {
		r.Undecided(rule, c, s.undSite[c], s.undecided[c])
	}
	r.Analysed("auth_modes", nModes)
	r.Analysed("credential_comparisons", s.nCmp)
}

func (s *c17Sec) atomName(a *c17Atom) string {
	if a.name != "" {
		return a.name
	}
	return a.v.Name()
}
