package main

import (
	"encoding/json"
	"fmt"
	"os"
	"path/filepath"
	"sort"
	"strings"
)

type Status string

const (
	Discharged Status = "discharged"
	Violated   Status = "violated"
	Undecided  Status = "undecided"
)

// Obligation is one instance of a rule on one construct of the program.
type Obligation struct {
	Rule       string `json:"rule"`
	Construct  string `json:"construct"` // stable key, no line numbers
	Site       string `json:"site"`      // file:line, for humans
	Status     Status `json:"status"`
	Detail     string `json:"detail,omitempty"`
	Nontrivial bool   `json:"nontrivial"` // a path/dataflow had to be inspected
	Config     string `json:"config,omitempty"`
}

func (o Obligation) Key() string { return o.Rule + " " + o.Construct }

// Reporter collects the obligations of one property run.
type Reporter struct {
	Prop     string
	P        *Program
	Obls     []Obligation
	floors   map[string]int
	counts   map[string]int
	analysed map[string]int // what was analysed: functions, call sites ...
	notes    []string
	seen     map[string]int
}

func NewReporter(prop string, p *Program) *Reporter {
	return &Reporter{Prop: prop, P: p, floors: map[string]int{}, counts: map[string]int{}, analysed: map[string]int{}, seen: map[string]int{}}
}

func (r *Reporter) add(rule, construct, site string, st Status, nontrivial bool, detail string) {
	key := rule + " " + construct
	r.seen[key]++
	if n := r.seen[key]; n > 1 {
		construct = fmt.Sprintf("%s#%d", construct, n)
	}
	r.Obls = append(r.Obls, Obligation{Rule: rule, Construct: construct, Site: site, Status: st, Detail: detail, Nontrivial: nontrivial, Config: r.P.Config})
	r.counts[rule]++
}

// OK records a discharged path/dataflow obligation.
func (r *Reporter) OK(rule, construct, site, detail string) {
	r.add(rule, construct, site, Discharged, true, detail)
}

// OKTable records a discharged table/lookup obligation (not counted as nontrivial).
func (r *Reporter) OKTable(rule, construct, site, detail string) {
	r.add(rule, construct, site, Discharged, false, detail)
}

func (r *Reporter) Violation(rule, construct, site, detail string) {
	r.add(rule, construct, site, Violated, true, detail)
}

func (r *Reporter) Undecided(rule, construct, site, detail string) {
	r.add(rule, construct, site, Undecided, true, detail)
}

// Check records discharged when ok, violated otherwise.
func (r *Reporter) Check(ok bool, rule, construct, site, okDetail, badDetail string) bool {
	if ok {
		r.OK(rule, construct, site, okDetail)
	} else {
		r.Violation(rule, construct, site, badDetail)
	}
	return ok
}

// Floor declares the minimum number of instances a rule must find.
func (r *Reporter) Floor(rule string, n int) { r.floors[rule] = n }

// Analysed accumulates counters describing what the run looked at.
func (r *Reporter) Analysed(what string, n int) { r.analysed[what] += n }

func (r *Reporter) Note(format string, args ...any) {
	r.notes = append(r.notes, fmt.Sprintf(format, args...))
}

// ---- known findings -------------------------------------------------------

type Finding struct {
	Property  string `json:"property"`
	Rule      string `json:"rule"`
	Construct string `json:"construct"`
	Status    string `json:"status"` // "known" or "fixed"
	Commit    string `json:"commit,omitempty"`
	What      string `json:"what"`
	Line      string `json:"line,omitempty"` // the "fixed: property=... " line required by the brief
}

type FindingsFile struct {
	Findings []Finding `json:"findings"`
}

func loadFindings(path string) []Finding {
	b, err := os.ReadFile(path)
	if err != nil {
		if os.IsNotExist(err) {
			return nil
		}
		brokenf("reading %s: %v", path, err)
	}
	var ff FindingsFile
	if err := json.Unmarshal(b, &ff); err != nil {
		brokenf("parsing %s: %v", path, err)
	}
	return ff.Findings
}

// ---- evidence -------------------------------------------------------------

type evidence struct {
	PropertyID  string         `json:"property_id"`
	Tier        string         `json:"tier"`
	Seed        int            `json:"seed"`
	Level       string         `json:"level"`
	Coverage    map[string]any `json:"coverage"`
	Assumptions []string       `json:"assumptions"`
	WallS       float64        `json:"wall_s"`
	Violations  int            `json:"violations"`
}

type PropSpec struct {
	ID          string
	Title       string
	Explanation string // clauses decided / not decided
	Assumptions []string
	RuleDocs    map[string]string
	Run         func(p *Program, r *Reporter)
	// Manifest fields.
	DesignRef string // DESIGN.md section
	Technique string // a few words naming the deciding method
	LevelText string // what assurance the check gives (level "other")
	// Configs lists extra build configurations for the thorough tier.
	ThoroughConfigs [][]string
}

var props = map[string]*PropSpec{}

func register(ps *PropSpec) { props[ps.ID] = ps }

type runResult struct {
	obls      []Obligation
	analysed  map[string]int
	counts    map[string]int
	floors    map[string]int
	notes     []string
	configs   []string
	pkgs      int
	funcs     int
	floorErrs []string
}

func finish(ps *PropSpec, res *runResult, tier string, seed int, wall float64, verifDir, evidencePath string) int {
	findings := loadFindings(filepath.Join(verifDir, "known_findings.json"))
	known := map[string]Finding{}
	for _, f := range findings {
		if f.Property == ps.ID && f.Status == "known" {
			known[f.Rule+" "+f.Construct] = f
		}
	}
	sort.SliceStable(res.obls, func(i, j int) bool {
		if res.obls[i].Rule != res.obls[j].Rule {
			return res.obls[i].Rule < res.obls[j].Rule
		}
		return res.obls[i].Construct < res.obls[j].Construct
	})
	// dedupe across configs: same rule+construct+status reported once, configs merged
	type agg struct {
		o    Obligation
		cfgs []string
	}
	var order []string
	byKey := map[string]*agg{}
	for _, o := range res.obls {
		k := o.Key() + " " + string(o.Status)
		if a, ok := byKey[k]; ok {
			a.cfgs = append(a.cfgs, o.Config)
			continue
		}
		byKey[k] = &agg{o: o, cfgs: []string{o.Config}}
		order = append(order, k)
	}
	var all, bad, knownHit []Obligation
	nontriv := map[string]bool{}
	discharged := 0
	for _, k := range order {
		a := byKey[k]
		o := a.o
		o.Config = strings.Join(a.cfgs, ";")
		all = append(all, o)
		switch o.Status {
		case Discharged:
			discharged++
			if o.Nontrivial {
				nontriv[o.Key()] = true
			}
		default:
			if _, ok := known[o.Key()]; ok {
				knownHit = append(knownHit, o)
			} else {
				bad = append(bad, o)
			}
		}
	}
	for _, e := range res.floorErrs {
		bad = append(bad, Obligation{Rule: "floor", Construct: e, Status: Violated, Detail: "rule found fewer instances than confirmed by hand on the pinned tree: " + e})
	}
	for _, o := range knownHit {
		f := known[o.Key()]
		fmt.Printf("KNOWN-FINDING: property=%s %s %s at %s: %s\n", ps.ID, o.Rule, o.Construct, o.Site, f.What)
	}
	// samples: up to 12 obligations, preferring nontrivial ones, spread over rules
	var samples []any
	perRule := map[string]int{}
	for _, o := range all {
		if o.Nontrivial && perRule[o.Rule] < 2 && len(samples) < 16 {
			perRule[o.Rule]++
			samples = append(samples, o)
		}
	}
	if len(samples) == 0 {
		for i, o := range all {
			if i >= 5 {
				break
			}
			samples = append(samples, o)
		}
	}
	ruleCounts := map[string]any{}
	for k, v := range res.counts {
		ruleCounts[k] = map[string]int{"instances": v, "floor": res.floors[k]}
	}
	cov := map[string]any{
		"explanation":         ps.Explanation,
		"obligations":         len(all),
		"discharged":          discharged,
		"evaluations":         len(res.obls),
		"distinct_nontrivial": len(nontriv),
		"rule":                "obligations are (rule, construct) pairs enumerated from the type-checked/SSA program of /repo on this run; 'nontrivial' = the rule had to inspect a CFG path, dominance relation, lockset or value dependence (table look-ups are not counted); distinct = distinct rule+construct keys",
		"rules":               ps.RuleDocs,
		"rule_instances":      ruleCounts,
		"samples":             samples,
		"analysed":            res.analysed,
		"packages_loaded":     res.pkgs,
		"functions_loaded":    res.funcs,
		"build_configs":       res.configs,
		"known_findings_hit":  len(knownHit),
		"notes":               res.notes,
		"checker_cmd":         strings.Join(os.Args, " "),
		"all_obligations":     all,
	}
	ev := evidence{PropertyID: ps.ID, Tier: tier, Seed: seed, Level: "other", Coverage: cov,
		Assumptions: append([]string{
			"go/packages + go/types + go/ssa (x/tools v0.50.0, go1.26.8) model the program the Go compiler builds",
			"no alias analysis beyond receiver/parameter-rooted access paths and single-store locals",
			"only a structural necessary condition is decided; the behavioural statement itself is not (see explanation)",
		}, ps.Assumptions...),
		WallS: wall, Violations: len(bad)}
	if evidencePath != "" {
		os.MkdirAll(filepath.Dir(evidencePath), 0o755)
		b, _ := json.MarshalIndent(ev, "", " ")
		if err := os.WriteFile(evidencePath, append(b, '\n'), 0o644); err != nil {
			brokenf("writing evidence: %v", err)
		}
	}
	fmt.Printf("pkverify %s tier=%s configs=%d packages=%d functions=%d obligations=%d discharged=%d nontrivial=%d known=%d violations=%d wall=%.1fs\n",
		ps.ID, tier, len(res.configs), res.pkgs, res.funcs, len(all), discharged, len(nontriv), len(knownHit), len(bad), wall)
	if len(bad) == 0 {
		return 0
	}
	vpath := strings.TrimSuffix(evidencePath, ".json") + ".violations.json"
	if evidencePath == "" {
		vpath = filepath.Join(verifDir, "evidence", ps.ID+".violations.json")
	}
	b, _ := json.MarshalIndent(map[string]any{"property": ps.ID, "violations": bad, "replay": "re-run: " + strings.Join(os.Args, " ")}, "", " ")
	os.MkdirAll(filepath.Dir(vpath), 0o755)
	os.WriteFile(vpath, append(b, '\n'), 0o644)
	for _, o := range bad {
		fmt.Printf("  %s %s [%s] at %s: %s\n", o.Status, o.Rule, o.Construct, o.Site, o.Detail)
	}
	fmt.Printf("VIOLATION property=%s replay=%s\n", ps.ID, vpath)
	return 1
}
