package main

import (
	"fmt"
	"go/token"
	"go/types"

	"golang.org/x/tools/go/ssa"
)

func init() {
	register(&PropSpec{
		ID:    "C12",
		Title: "Replicated writes are acknowledged only at quorum; reads survive replica loss",
		Explanation: "Decided (structural necessary conditions, all in pkg/blobserver/replica, anchors resolved by role: the package's blobserver.Storage implementer and the constructor registered with RegisterStorageConstructor): " +
			"Q-ack — in ReceiveBlob (i) one uploader is started exactly once per element of the write-replica slice with that element as destination; (ii) every uploader path sends exactly one message and the message carries the error and SizedRef of that replica's receive call; (iii) the replica receives the request's blobref and a reader created per uploader over the buffer that a successful slurp of src filled before the fan-out; (iv) the collector receives once per write replica; (v) every return with a nil error is dominated by a comparison counter==/>= sto.minWritesForSuccess (== only on the freshly incremented value); (vi) the counter is a loop-carried value starting at 0 that is only ever incremented by 1, in blocks where the current message's error is known nil and its reported size is known equal to the slurped size; (vii) the error of every other return is, on each loop arm, either known non-nil or left unchanged by an arm that counted a success; (viii) the acknowledged SizedRef is the counted replica's answer or is built from the slurped size. " +
			"Q-read — Fetch and OpenWholeRef iterate over every element of the read-replica slice from index 0 in steps of 1, skip an element only on a failed type assertion, leave the loop early only where the current replica's error is known nil and then return that replica's reader; StatBlobs asks every read replica for all requested blobs, and the caller's fn is invoked only under one function-wide mutex, behind a positive membership test need[sb.Ref] on one function-wide map that was filled with every requested ref before the fan-out, with delete(need, sb.Ref) on the same path under the same lock; EnumerateBlobs delegates to MergedEnumerateStorage over the read-replica slice with its own ctx/dest/after/limit. " +
			"Q-remove — RemoveBlobs asks every write replica once, every worker reports exactly once, the collector receives once per replica, nil is returned only behind counter>0 where the counter counts only nil results, and the other return's error is set by every failing arm. " +
			"Q-config — the registered constructor takes the quorum from config key minWritesForSuccess with default len(backends), maps a configured 0 to len(backends), rejects an empty backends list, defaults readBackends to backends before resolving them, fills the write (read) replica slice with exactly one storage per backends (readBackends) entry before any success return; every other constructor sets the quorum to the number of write replicas; no function writes a replicaStorage field of an object it did not allocate. " +
			"NOT decided: the counting argument that the fall-through return is non-nil for every failure subset (it needs 1<=minWritesForSuccess<=len(replicas); the constructor does not reject a configured value above the replica count or below zero, which is outside the property's quantifier 1..n and is not demanded); slow or hanging replicas and timing; what replicas actually store; overlap of replica contents and the correctness of MergedEnumerateStorage itself (C01 M-dedup); that fn errors propagate; goroutine/channel capacity hygiene (C13).",
		RuleDocs: map[string]string{
			"Q-ack":    "replicaStorage.ReceiveBlob: fan-out per write replica, one report per uploader carrying the replica's (SizedRef, error), right ref/bytes, collector count, nil-error returns dominated by counter vs minWritesForSuccess, counter incremented only under {err==nil, size==slurped}, other returns' error set by every non-success arm",
			"Q-read":   "Fetch/OpenWholeRef: ordered fall-back over every read replica, early exit only on success; StatBlobs: every read replica asked, fn behind need[ref] + delete under one mutex; EnumerateBlobs: MergedEnumerateStorage over the read replicas",
			"Q-remove": "replicaStorage.RemoveBlobs: every write replica asked once, one report per worker, collector count, nil only behind nSuccess>0 counted under err==nil",
			"Q-config": "constructors: quorum default/zero = all replicas, >=1 backend, readBackends default, one replica per prefix before success, fields immutable after construction",
		},
		Run:       runC12,
		DesignRef: "DESIGN.md §4 C12",
		Technique: "static analysis: dominance facts on go/ssa (quorum guard, success-only counting), loop-carried value analysis of the returned error, range-loop recognition for fan-out/collect agreement, value dependence for ref/bytes, lockset for the stat de-duplication",
		LevelText: "Decides structural necessary conditions only: a nil-error return of the replicated ReceiveBlob is dominated by the quorum comparison on a counter that counts only correctly sized, error-free replica answers, one answer per write replica; reads fall back over every read replica and leave early only on success; stat reports are de-duplicated under one lock; the constructor's defaults make the quorum 'all replicas'. Does not decide the counting argument for the fall-through error (and so not out-of-range quorum configuration), timing/slow replicas, or replica contents.",
	})
}

const c12Rel = "pkg/blobserver/replica"

// c12Ctx carries the anchors of the property.
type c12Ctx struct {
	p    *Program
	r    *Reporter
	typ  *types.Named // the replicated storage type
	ctor *ssa.Function
	// field indexes (anchored by name)
	fMin, fWPref, fRPref, fWRep, fRRep int
}

func runC12(p *Program, r *Reporter) {
	cx := c12Resolve(p, r)
	r.Analysed("functions", len(p.FuncsIn(c12Rel)))
	c12QConfig(cx)
	c12QAck(cx)
	c12QRead(cx)
	c12QRemove(cx)
}

func c12Resolve(p *Program, r *Reporter) *c12Ctx {
	cx := &c12Ctx{p: p, r: r}
	for _, n := range p.Implementers(p.Iface("pkg/blobserver", "Storage"), false) {
		if RelPkg(n.Obj().Pkg()) == c12Rel {
			if cx.typ != nil {
				brokenf("anchor unresolved: more than one blobserver.Storage implementer in %s", c12Rel)
			}
			cx.typ = n
		}
	}
	if cx.typ == nil {
		brokenf("anchor unresolved: no blobserver.Storage implementer in %s", c12Rel)
	}
	st, ok := cx.typ.Underlying().(*types.Struct)
	if !ok {
		brokenf("anchor unresolved: %s is not a struct", cx.typ)
	}
	field := func(name string) int {
		for i := 0; i < st.NumFields(); i++ {
			if st.Field(i).Name() == name {
				return i
			}
		}
		brokenf("anchor unresolved: field %s.%s", cx.typ.Obj().Name(), name)
		return -1
	}
	cx.fMin = field("minWritesForSuccess")
	cx.fWPref = field("replicaPrefixes")
	cx.fRPref = field("readPrefixes")
	cx.fWRep = field("replicas")
	cx.fRRep = field("readReplicas")
	for _, fn := range p.FuncsIn(c12Rel) {
		for _, c := range CallsIn(fn, false) {
			if c.IsStatic("perkeep.org/pkg/blobserver", "", "RegisterStorageConstructor") && len(c.Args()) == 2 {
				if f, ok := originValue(c.Args()[1]).(*ssa.Function); ok && f.Blocks != nil {
					cx.ctor = f
				}
			}
		}
	}
	if cx.ctor == nil {
		brokenf("anchor unresolved: constructor registered with blobserver.RegisterStorageConstructor in %s", c12Rel)
	}
	return cx
}

func (cx *c12Ctx) method(name string) *ssa.Function {
	f, declared := cx.p.MethodOf(cx.typ, name)
	if f == nil || !declared || f.Blocks == nil {
		brokenf("anchor unresolved: %s.(%s).%s", c12Rel, cx.typ.Obj().Name(), name)
	}
	return f
}

func (cx *c12Ctx) fieldName(i int) string {
	return cx.typ.Underlying().(*types.Struct).Field(i).Name()
}

// isObj reports whether t is (a pointer to) the replicated storage type.
func (cx *c12Ctx) isObj(t types.Type) bool {
	n := NamedOf(t)
	return n != nil && n.Obj() == cx.typ.Obj()
}

// fieldAddr: v is &obj.field of the storage type.
func (cx *c12Ctx) fieldAddr(v ssa.Value) (int, bool) {
	fa, ok := v.(*ssa.FieldAddr)
	if !ok || !cx.isObj(fa.X.Type()) {
		return 0, false
	}
	return fa.Field, true
}

// fieldLoad: v (after stripping value-preserving wrappers) is a load of a field of the storage type.
func (cx *c12Ctx) fieldLoad(v ssa.Value) (int, bool) {
	switch x := originValue(v).(type) {
	case *ssa.UnOp:
		if x.Op == token.MUL {
			return cx.fieldAddr(x.X)
		}
	case *ssa.Field:
		if cx.isObj(x.X.Type()) {
			return x.Field, true
		}
	}
	return 0, false
}

func (cx *c12Ctx) isFieldLoad(v ssa.Value, f int) bool {
	g, ok := cx.fieldLoad(v)
	return ok && g == f
}

// lenOfField: v is len(obj.field).
func (cx *c12Ctx) lenOfField(v ssa.Value, f int) bool {
	arg, ok := c12LenArg(v)
	return ok && cx.isFieldLoad(arg, f)
}

// c12LenArg returns x when v is the builtin call len(x).
func c12LenArg(v ssa.Value) (ssa.Value, bool) {
	call, ok := originValue(v).(*ssa.Call)
	if !ok {
		return nil, false
	}
	if b, ok := call.Call.Value.(*ssa.Builtin); ok && b.Name() == "len" && len(call.Call.Args) == 1 {
		return call.Call.Args[0], true
	}
	return nil, false
}

func c12Builtin(c CallSite, name string) bool {
	b, ok := c.Common().Value.(*ssa.Builtin)
	return ok && b.Name() == name
}

// ---------------------------------------------------------------------------
// Loops

// c12Loop is a natural loop; Idx/Bound are set when the header has the shape
// `if idx < bound` (range-over-slice, range-over-int and classic counting loops).
type c12Loop struct {
	Header *ssa.BasicBlock
	Body   *ssa.BasicBlock // successor taken while the loop continues
	Done   *ssa.BasicBlock
	Idx    ssa.Value // per-iteration index compared against Bound (nil: shape not recognised)
	Bound  ssa.Value
	// FromZeroStep1: the first compared index is 0 and it grows by exactly 1 per iteration.
	FromZeroStep1 bool
	// Latch is set for rotated loops (go/ssa's range-over-int): the test sits at
	// the bottom, Header == Body, and an entry guard `0 < bound` precedes the loop.
	Latch *ssa.BasicBlock
}

// NormalExit is the block whose false edge ends the loop normally.
func (l *c12Loop) NormalExit() *ssa.BasicBlock {
	if l.Latch != nil {
		return l.Latch
	}
	return l.Header
}

func c12Reaches(from, to *ssa.BasicBlock) bool {
	seen := map[*ssa.BasicBlock]bool{}
	var walk func(b *ssa.BasicBlock) bool
	walk = func(b *ssa.BasicBlock) bool {
		for _, s := range b.Succs {
			if s == to {
				return true
			}
			if !seen[s] {
				seen[s] = true
				if walk(s) {
					return true
				}
			}
		}
		return false
	}
	return walk(from)
}

// c12InLoop: b belongs to the natural loop headed by h (h dominates b and b
// reaches h through blocks dominated by h).
func c12InLoop(h, b *ssa.BasicBlock) bool {
	if !(h == b || h.Dominates(b)) {
		return false
	}
	seen := map[*ssa.BasicBlock]bool{}
	var walk func(x *ssa.BasicBlock) bool
	walk = func(x *ssa.BasicBlock) bool {
		for _, s := range x.Succs {
			if s == h {
				return true
			}
			if seen[s] || !h.Dominates(s) {
				continue
			}
			seen[s] = true
			if walk(s) {
				return true
			}
		}
		return false
	}
	return walk(b)
}

// c12InnermostLoop returns the innermost natural loop containing b, or nil.
func c12InnermostLoop(b *ssa.BasicBlock) *c12Loop {
	for d := b; d != nil; d = d.Idom() {
		if !c12InLoop(d, b) {
			continue
		}
		l := &c12Loop{Header: d}
		if len(d.Instrs) == 0 {
			return l
		}
		ifi, ok := d.Instrs[len(d.Instrs)-1].(*ssa.If)
		if ok && len(d.Succs) == 2 {
			if bo, ok := ifi.Cond.(*ssa.BinOp); ok && bo.Op == token.LSS && (d.Succs[0] == b || d.Succs[0].Dominates(b)) {
				l.Body, l.Done = d.Succs[0], d.Succs[1]
				l.Idx, l.Bound = bo.X, bo.Y
				l.FromZeroStep1 = c12FromZeroStep1(bo.X, d)
				return l
			}
		}
		c12Rotated(l)
		return l
	}
	return nil
}

// c12Rotated recognises go/ssa's lowering of `for i := range n`:
//
//	   if 0 < n goto body else done
//	loop: incr = iter + 1; if incr < n goto body else done
//	body: iter = phi [0, incr] ... jump loop
func c12Rotated(l *c12Loop) {
	h := l.Header
	var latch, entry *ssa.BasicBlock
	for _, pr := range h.Preds {
		if h.Dominates(pr) {
			if latch != nil {
				return
			}
			latch = pr
		} else {
			if entry != nil {
				return
			}
			entry = pr
		}
	}
	if latch == nil || entry == nil || len(latch.Succs) != 2 || latch.Succs[0] != h || len(entry.Succs) != 2 || entry.Succs[0] != h {
		return
	}
	lif, ok1 := latch.Instrs[len(latch.Instrs)-1].(*ssa.If)
	eif, ok2 := entry.Instrs[len(entry.Instrs)-1].(*ssa.If)
	if !ok1 || !ok2 {
		return
	}
	lc, ok1 := lif.Cond.(*ssa.BinOp)
	ec, ok2 := eif.Cond.(*ssa.BinOp)
	if !ok1 || !ok2 || lc.Op != token.LSS || ec.Op != token.LSS || lc.Y != ec.Y || latch.Succs[1] != entry.Succs[1] {
		return
	}
	if z, ok := ConstInt(ec.X); !ok || z != 0 {
		return
	}
	incr, ok := lc.X.(*ssa.BinOp)
	if !ok || incr.Op != token.ADD {
		return
	}
	phi, ok := incr.X.(*ssa.Phi)
	if one, isC := ConstInt(incr.Y); !ok || !isC || one != 1 || phi.Block() != h || len(phi.Edges) != 2 {
		return
	}
	for i, e := range phi.Edges {
		if h.Preds[i] == latch && e != ssa.Value(incr) {
			return
		}
		if h.Preds[i] == entry {
			if z, ok := ConstInt(e); !ok || z != 0 {
				return
			}
		}
	}
	l.Body, l.Done, l.Latch = h, latch.Succs[1], latch
	l.Idx, l.Bound, l.FromZeroStep1 = phi, lc.Y, true
}

func c12FromZeroStep1(idx ssa.Value, h *ssa.BasicBlock) bool {
	plus1 := func(v ssa.Value, base ssa.Value) bool {
		bo, ok := v.(*ssa.BinOp)
		if !ok || bo.Op != token.ADD {
			return false
		}
		if n, ok := ConstInt(bo.Y); ok && n == 1 && bo.X == base {
			return true
		}
		if n, ok := ConstInt(bo.X); ok && n == 1 && bo.Y == base {
			return true
		}
		return false
	}
	check := func(phi *ssa.Phi, first int64, next func(e ssa.Value) bool) bool {
		if phi.Block() != h {
			return false
		}
		for i, e := range phi.Edges {
			pred := h.Preds[i]
			if h.Dominates(pred) { // back edge
				if !next(e) {
					return false
				}
			} else if n, ok := ConstInt(e); !ok || n != first {
				return false
			}
		}
		return true
	}
	switch x := idx.(type) {
	case *ssa.BinOp: // range loops: idx = phi + 1, phi = [-1, idx]
		if x.Op != token.ADD {
			return false
		}
		phi, ok := x.X.(*ssa.Phi)
		if !ok || !plus1(x, phi) {
			return false
		}
		return check(phi, -1, func(e ssa.Value) bool { return e == ssa.Value(x) })
	case *ssa.Phi: // classic: i = phi [0, i+1]
		return check(x, 0, func(e ssa.Value) bool { return plus1(e, x) })
	}
	return false
}

// c12SkipPath reports whether some path from the loop body entry back to the
// header avoids block must. allowSkip (optional) names If blocks whose false
// edge may legitimately skip (e.g. a failed type assertion).
func c12SkipPath(l *c12Loop, must *ssa.BasicBlock, allowSkip func(ifBlock *ssa.BasicBlock) bool) bool {
	if l.Body == nil {
		return true
	}
	seen := map[*ssa.BasicBlock]bool{}
	var walk func(b *ssa.BasicBlock, first bool) bool
	walk = func(b *ssa.BasicBlock, first bool) bool {
		if b == must {
			return false
		}
		if b == l.Header && !first {
			return true
		}
		if seen[b] {
			return false
		}
		seen[b] = true
		for i, s := range b.Succs {
			if i == 1 && len(b.Succs) == 2 && allowSkip != nil && allowSkip(b) {
				continue
			}
			if walk(s, false) {
				return true
			}
		}
		return false
	}
	return walk(l.Body, true)
}

// ---------------------------------------------------------------------------
// Facts

// c12EdgeFacts: the branch conditions known when control flows pred -> succ.
func c12EdgeFacts(pred, succ *ssa.BasicBlock) []CondFact {
	out := FactsAt(pred)
	if len(pred.Instrs) > 0 && len(pred.Succs) == 2 && pred.Succs[0] != pred.Succs[1] {
		if ifi, ok := pred.Instrs[len(pred.Instrs)-1].(*ssa.If); ok {
			if pred.Succs[0] == succ {
				out = append(out, CondFact{ifi.Cond, true, pred})
			} else if pred.Succs[1] == succ {
				out = append(out, CondFact{ifi.Cond, false, pred})
			}
		}
	}
	return out
}

func c12StripNot(cond ssa.Value, val bool) (ssa.Value, bool) {
	for {
		u, ok := cond.(*ssa.UnOp)
		if !ok || u.Op != token.NOT {
			return cond, val
		}
		cond, val = u.X, !val
	}
}

// c12NilFact: do the facts say that a value satisfying is is nil / non-nil?
func c12NilFact(facts []CondFact, is func(ssa.Value) bool) (known, isNil bool) {
	for _, f := range facts {
		cond, val := c12StripNot(f.Cond, f.Val)
		bo, ok := cond.(*ssa.BinOp)
		if !ok || (bo.Op != token.EQL && bo.Op != token.NEQ) {
			continue
		}
		var other ssa.Value
		switch {
		case IsNilConst(bo.Y):
			other = bo.X
		case IsNilConst(bo.X):
			other = bo.Y
		default:
			continue
		}
		if is(other) {
			return true, (bo.Op == token.EQL) == val
		}
	}
	return false, false
}

// c12Rel normalises a fact to "a REL b is true" for the side selected by isA:
// returns the a-side value, the b-side value and REL.
func c12Relation(f CondFact, isA func(ssa.Value) bool) (a, b ssa.Value, rel token.Token, ok bool) {
	cond, val := c12StripNot(f.Cond, f.Val)
	bo, isBin := cond.(*ssa.BinOp)
	if !isBin {
		return nil, nil, 0, false
	}
	flip := map[token.Token]token.Token{token.LSS: token.GTR, token.GTR: token.LSS, token.LEQ: token.GEQ, token.GEQ: token.LEQ, token.EQL: token.EQL, token.NEQ: token.NEQ}
	neg := map[token.Token]token.Token{token.LSS: token.GEQ, token.GEQ: token.LSS, token.GTR: token.LEQ, token.LEQ: token.GTR, token.EQL: token.NEQ, token.NEQ: token.EQL}
	rel, known := bo.Op, false
	if _, known = flip[rel]; !known {
		return nil, nil, 0, false
	}
	switch {
	case isA(bo.X):
		a, b = bo.X, bo.Y
	case isA(bo.Y):
		a, b, rel = bo.Y, bo.X, flip[rel]
	default:
		return nil, nil, 0, false
	}
	if !val {
		rel = neg[rel]
	}
	return a, b, rel, true
}

// ---------------------------------------------------------------------------
// Reads of a received message

// c12Msg describes the value received from the result channel in one iteration.
type c12Msg struct {
	recv *ssa.UnOp // <-ch
}

// field reports which field of the message v reads (-1: the whole message),
// resolving `res := <-ch; ... res.f` through the local variable provided no
// store to that field (or to the whole variable) lies between.
func (m *c12Msg) field(v ssa.Value) (int, bool) {
	if v == ssa.Value(m.recv) {
		return -1, true
	}
	switch x := v.(type) {
	case *ssa.Field:
		if x.X == ssa.Value(m.recv) {
			return x.Field, true
		}
		if f, ok := m.field(x.X); ok && f == -1 {
			return x.Field, true
		}
	case *ssa.UnOp:
		if x.Op != token.MUL {
			return 0, false
		}
		ad, top := x.X, -1
		for {
			fa, ok := ad.(*ssa.FieldAddr)
			if !ok {
				break
			}
			top, ad = fa.Field, fa.X
		}
		if al, ok := ad.(*ssa.Alloc); ok && m.cleanSince(al, top, x) {
			return top, true
		}
	}
	return 0, false
}

// cleanSince: local variable al holds the received message at load (the store
// of the received value precedes the load and no later store to the field /
// whole variable can reach the load), and al's address does not escape.
func (m *c12Msg) cleanSince(al *ssa.Alloc, field int, load ssa.Instruction) bool {
	var s0 *ssa.Store
	var others []*ssa.Store
	escapes := false
	var scan func(addr ssa.Value, fld int)
	scan = func(addr ssa.Value, fld int) {
		refs := addr.Referrers()
		if refs == nil {
			return
		}
		for _, r := range *refs {
			switch r := r.(type) {
			case *ssa.Store:
				if r.Addr != addr {
					escapes = true
				} else if fld == -1 && r.Val == ssa.Value(m.recv) && Precedes(r, load) {
					s0 = r
				} else if fld == -1 || field == -1 || fld == field {
					others = append(others, r)
				}
			case *ssa.FieldAddr:
				if fld == -1 {
					scan(r, r.Field)
				} else {
					scan(r, fld)
				}
			case *ssa.UnOp:
				if r.Op != token.MUL {
					escapes = true
				}
			case *ssa.DebugRef:
			default:
				escapes = true
			}
		}
	}
	scan(al, -1)
	if escapes || s0 == nil {
		return false
	}
	isS0 := func(in ssa.Instruction) bool { return in == ssa.Instruction(s0) }
	after := ReachableFrom(s0, isS0)
	for _, st := range others {
		if after[st] && ReachableFrom(st, isS0)[load] {
			return false
		}
	}
	return true
}

func c12Site(p *Program, in ssa.Instruction) string {
	if in == nil {
		return "?"
	}
	if in.Pos().IsValid() {
		return p.Pos(in.Pos())
	}
	if c, ok := in.(ssa.CallInstruction); ok {
		return p.Pos(c.Common().Pos())
	}
	return p.Pos(in.Parent().Pos())
}

// ---------------------------------------------------------------------------
// Fan-out / collect protocol shared by ReceiveBlob, RemoveBlobs and StatBlobs

type c12Fan struct {
	top    *ssa.Function
	op     CallSite      // the per-replica operation
	worker *ssa.Function // function containing op
	spawn  CallSite      // instruction of top that starts worker (== op when worker == top)
	elem   *ssa.UnOp     // load of &slice[idx]: the replica the operation acts on
	loop   *c12Loop      // loop around spawn
	// channel protocol (nil ch: none found)
	ch       *ssa.MakeChan
	sends    []*ssa.Send
	errField int // message field carrying op's error (-1: the message is the error)
	sbField  int // message field carrying op's result 0 (-2: none)
	msg      *c12Msg
	recvLoop *c12Loop
}

// c12StripAssert looks through `v.(T)` / `v, ok := v.(T)`.
func c12StripAssert(v ssa.Value) ssa.Value {
	for i := 0; i < 4; i++ {
		v = originValue(v)
		switch x := v.(type) {
		case *ssa.Extract:
			if ta, ok := x.Tuple.(*ssa.TypeAssert); ok && x.Index == 0 {
				v = ta.X
				continue
			}
		case *ssa.TypeAssert:
			v = x.X
			continue
		}
		return v
	}
	return v
}

// c12CallsOf lists the instructions of parent (not nested) that call, go, defer or
// hand to a spawner the function literal lit.
func c12CallsOf(parent, lit *ssa.Function) []CallSite {
	var out []CallSite
	for _, c := range CallsIn(parent, false) {
		if c.Callee() == lit {
			out = append(out, c)
			continue
		}
		for _, f := range FuncArgClosures(c) {
			if f == lit {
				out = append(out, c)
			}
		}
	}
	return out
}

// c12ElemOrigin follows v back to a load of &slice[idx], through captured
// per-iteration variables, type assertions and parameters of a function
// literal with a single call site.
func c12ElemOrigin(v ssa.Value) *ssa.UnOp {
	for i := 0; i < 6; i++ {
		v = c12StripAssert(v)
		switch x := v.(type) {
		case *ssa.UnOp:
			if x.Op == token.MUL {
				if _, ok := x.X.(*ssa.IndexAddr); ok {
					return x
				}
			}
			return nil
		case *ssa.Parameter:
			f := x.Parent()
			if f.Parent() == nil {
				return nil
			}
			idx := -1
			for k, prm := range f.Params {
				if prm == x {
					idx = k
				}
			}
			var sites []CallSite
			for _, c := range CallsIn(f.Parent(), false) {
				if c.Callee() == f {
					sites = append(sites, c)
				}
			}
			if idx < 0 || len(sites) != 1 || idx >= len(sites[0].Common().Args) {
				return nil
			}
			v = sites[0].Common().Args[idx]
		default:
			return nil
		}
	}
	return nil
}

// c12FindFan resolves the operation, its worker, the spawn site and the
// element it acts on. problem != "" when the shape is not understood.
func c12FindFan(top *ssa.Function, isOp func(CallSite) bool, dstOf func(CallSite) ssa.Value) (fan *c12Fan, problem string, missing bool) {
	ops := FindCalls(top, true, isOp)
	if len(ops) == 0 {
		return nil, "no per-replica operation call found", true
	}
	if len(ops) > 1 {
		return nil, fmt.Sprintf("%d per-replica operation calls found; the analysis expects one", len(ops)), false
	}
	fan = &c12Fan{top: top, op: ops[0], worker: ops[0].Fn, errField: -1, sbField: -2}
	switch {
	case fan.worker == top:
		fan.spawn = fan.op
	case fan.worker.Parent() == top:
		sites := c12CallsOf(top, fan.worker)
		if len(sites) != 1 {
			return fan, fmt.Sprintf("worker literal is started from %d sites; the analysis expects one", len(sites)), false
		}
		fan.spawn = sites[0]
	default:
		return fan, "per-replica operation is nested more than one literal deep", false
	}
	fan.elem = c12ElemOrigin(dstOf(fan.op))
	fan.loop = c12InnermostLoop(fan.spawn.Block())
	return fan, "", false
}

// checkFanOut: the worker is started exactly once per element of obj.field,
// acting on that element.
func (cx *c12Ctx) checkFanOut(fan *c12Fan, field int, allowSkip func(*ssa.BasicBlock) bool) (ok bool, undecided bool, detail string) {
	fname := cx.fieldName(field)
	if fan.elem == nil {
		return false, false, "the replica the operation acts on is not an element `" + fname + "[i]` of the replica slice (followed through captures, parameters and type assertions)"
	}
	ia := fan.elem.X.(*ssa.IndexAddr)
	if !cx.isFieldLoad(ia.X, field) {
		return false, false, "the operation acts on an element of a slice other than sto." + fname
	}
	l := fan.loop
	if l == nil {
		return false, false, "the operation is not inside a loop over sto." + fname
	}
	if l.Idx == nil {
		return false, true, "enclosing loop does not have the shape `idx < bound`; cannot count its iterations"
	}
	if !l.FromZeroStep1 {
		return false, false, "the loop around the operation does not start at index 0 / step by 1: some replica is skipped"
	}
	if !cx.lenOfField(l.Bound, field) {
		return false, false, "the loop around the operation is not bounded by len(sto." + fname + ")"
	}
	if ia.Index != l.Idx {
		return false, false, "the operation does not act on the element at the loop's current index"
	}
	if c12SkipPath(l, fan.spawn.Block(), allowSkip) {
		return false, false, "some iteration reaches the next one without starting the operation for its replica"
	}
	return true, false, fmt.Sprintf("started once per iteration of a loop idx=0..len(sto.%s)-1 on sto.%s[idx]", fname, fname)
}

// resolveChannel finds the result channel the worker reports on, the layout of
// the message and the collector's receive.
func (fan *c12Fan) resolveChannel() (problem string, undecided bool) {
	opCall := fan.op.Value()
	if opCall == nil {
		return "per-replica operation is started with go/defer; its result is lost", false
	}
	opErr, hasErr, _ := ErrValue(opCall)
	if !hasErr {
		return "per-replica operation has no error result", false
	}
	for _, b := range fan.worker.Blocks {
		for _, in := range b.Instrs {
			if s, ok := in.(*ssa.Send); ok {
				if mc, ok := originValue(s.Chan).(*ssa.MakeChan); ok && mc.Parent() == fan.top {
					if fan.ch != nil && fan.ch != mc {
						return "worker sends on more than one channel", true
					}
					fan.ch = mc
					fan.sends = append(fan.sends, s)
				}
			}
		}
	}
	if fan.ch == nil {
		return "worker does not send its result on a channel made in " + fan.top.Name(), false
	}
	// sends on the channel from anywhere else
	var all []*ssa.Function
	var collect func(f *ssa.Function)
	collect = func(f *ssa.Function) {
		all = append(all, f)
		for _, a := range f.AnonFuncs {
			collect(a)
		}
	}
	collect(fan.top)
	var recvs []*ssa.UnOp
	for _, f := range all {
		for _, b := range f.Blocks {
			for _, in := range b.Instrs {
				switch x := in.(type) {
				case *ssa.Send:
					if f != fan.worker && originValue(x.Chan) == ssa.Value(fan.ch) {
						return "the result channel has a sender outside the per-replica worker", false
					}
				case *ssa.UnOp:
					if x.Op == token.ARROW && originValue(x.X) == ssa.Value(fan.ch) {
						recvs = append(recvs, x)
					}
				case *ssa.Select:
					for _, st := range x.States {
						if originValue(st.Chan) == ssa.Value(fan.ch) {
							return "the result channel is used in a select; not followed", true
						}
					}
				}
			}
		}
	}
	if len(recvs) != 1 || recvs[0].Parent() != fan.top || recvs[0].CommaOk {
		return fmt.Sprintf("expected exactly one plain receive from the result channel in %s, found %d", fan.top.Name(), len(recvs)), true
	}
	fan.msg = &c12Msg{recv: recvs[0]}
	fan.recvLoop = c12InnermostLoop(recvs[0].Block())
	// message layout, from the first send; all sends must agree
	for i, s := range fan.sends {
		ef, sf := -2, -2
		if sameOrigin(s.X, opErr) {
			ef = -1
		} else if ld, ok := s.X.(*ssa.UnOp); ok && ld.Op == token.MUL {
			if al, ok := ld.X.(*ssa.Alloc); ok && al.Referrers() != nil {
				for _, r := range *al.Referrers() {
					fa, ok := r.(*ssa.FieldAddr)
					if !ok || fa.Referrers() == nil {
						continue
					}
					for _, rr := range *fa.Referrers() {
						if st, ok := rr.(*ssa.Store); ok && st.Addr == ssa.Value(fa) {
							if sameOrigin(st.Val, opErr) {
								ef = fa.Field
							} else if rv := ResultValue(opCall, 0); rv != nil && rv != opErr && sameOrigin(st.Val, rv) {
								sf = fa.Field
							}
						}
					}
				}
			}
		}
		if ef == -2 {
			return "a message sent by the worker does not carry the error of the per-replica operation", false
		}
		if i > 0 && (ef != fan.errField || sf != fan.sbField) {
			return "the worker's sends disagree on where the operation's results are put", false
		}
		fan.errField, fan.sbField = ef, sf
	}
	return "", false
}

// checkReportsOnce: every path through the worker sends exactly one message.
func (fan *c12Fan) checkReportsOnce() (bool, string) {
	isSend := func(in ssa.Instruction) bool {
		s, ok := in.(*ssa.Send)
		return ok && originValue(s.Chan) == ssa.Value(fan.ch)
	}
	first := fan.worker.Blocks[0].Instrs[0]
	if !isSend(first) {
		if leaks := LeakingExits(PathQuery{Start: first, Stop: isSend, IgnorePanics: true}); len(leaks) > 0 {
			return false, fmt.Sprintf("the worker can return without reporting (exit at line %d): the collector waits for an answer that never comes", fan.top.Prog.Fset.Position(leaks[0].Exit.Pos()).Line)
		}
	}
	for _, s := range fan.sends {
		for in := range ReachableFrom(s, nil) {
			if isSend(in) {
				return false, "a worker path reports twice: one replica would be counted as two"
			}
		}
	}
	return true, "every worker path sends exactly one message carrying the operation's own error"
}

// checkCollectCount: the receive runs once per element of obj.field.
func (cx *c12Ctx) checkCollectCount(fan *c12Fan, field int) (ok, undecided bool, detail string) {
	fname := cx.fieldName(field)
	l := fan.recvLoop
	if l == nil {
		return false, false, "the collector receives outside any loop: only one replica's answer is looked at"
	}
	if l.Idx == nil {
		return false, true, "collector loop does not have the shape `idx < bound`; cannot count its iterations"
	}
	if !l.FromZeroStep1 || !cx.lenOfField(l.Bound, field) {
		return false, false, "the collector loop does not run exactly len(sto." + fname + ") times, the number of workers started"
	}
	if c12SkipPath(l, fan.msg.recv.Block(), nil) {
		return false, false, "some collector iteration does not receive an answer"
	}
	return true, false, "one receive per iteration of a loop running len(sto." + fname + ") times, as many as workers started"
}

// ---------------------------------------------------------------------------
// Success counter, guard and fall-through error

type c12Counter struct {
	phi  *ssa.Phi     // the loop-header phi carrying the count
	incs []*ssa.BinOp // the `phi + 1` values that flow back into it
}

// c12NetLeaf is a non-phi value flowing into a loop-carried phi network along
// the CFG edge leaving block From.
type c12NetLeaf struct {
	Val  ssa.Value
	From *ssa.BasicBlock
}

// c12NetLeaves expands root (a loop-header phi) through the phis of the loop
// that merge the values of the loop's arms (continue edges, latch of a rotated
// loop) down to the non-phi values, and the root itself where an arm leaves it
// unchanged.
func c12NetLeaves(root *ssa.Phi) []c12NetLeaf {
	h := root.Block()
	var out []c12NetLeaf
	seen := map[*ssa.Phi]bool{}
	var expand func(phi *ssa.Phi)
	expand = func(phi *ssa.Phi) {
		seen[phi] = true
		for i, e := range phi.Edges {
			from := phi.Block().Preds[i]
			if p2, ok := e.(*ssa.Phi); ok && p2 != root && c12InLoop(h, p2.Block()) {
				if !seen[p2] {
					expand(p2)
				}
				continue
			}
			out = append(out, c12NetLeaf{e, from})
		}
	}
	expand(root)
	return out
}

// c12CounterOf interprets v (the value compared with the threshold) as a
// loop-carried counter: a header phi whose network leaves are only `0` from
// outside the loop, the phi itself, and phi+1 — or its freshly incremented value.
func c12CounterOf(v ssa.Value) (*c12Counter, bool /*v is a fresh increment*/, string) {
	var phi *ssa.Phi
	fresh := false
	isInc := func(e ssa.Value, base *ssa.Phi) *ssa.BinOp {
		bo, ok := e.(*ssa.BinOp)
		if !ok || bo.Op != token.ADD {
			return nil
		}
		if n, ok := ConstInt(bo.Y); ok && n == 1 && bo.X == ssa.Value(base) {
			return bo
		}
		if n, ok := ConstInt(bo.X); ok && n == 1 && bo.Y == ssa.Value(base) {
			return bo
		}
		return nil
	}
	switch x := v.(type) {
	case *ssa.Phi:
		phi = x
	case *ssa.BinOp:
		if p, ok := x.X.(*ssa.Phi); ok && isInc(x, p) != nil {
			phi, fresh = p, true
		} else if p, ok := x.Y.(*ssa.Phi); ok && isInc(x, p) != nil {
			phi, fresh = p, true
		}
	}
	if phi == nil {
		return nil, false, "the value compared with the threshold is not a loop-carried counter (phi) or counter+1"
	}
	c := &c12Counter{phi: phi}
	h := phi.Block()
	seenInc := map[*ssa.BinOp]bool{}
	for _, lf := range c12NetLeaves(phi) {
		switch {
		case lf.Val == ssa.Value(phi):
		case isInc(lf.Val, phi) != nil:
			if inc := isInc(lf.Val, phi); !seenInc[inc] {
				seenInc[inc] = true
				c.incs = append(c.incs, inc)
			}
		default:
			if n, ok := ConstInt(lf.Val); ok && n == 0 && !c12InLoop(h, lf.From) {
				continue
			}
			return nil, false, "the counter has an update other than `start at 0` and `+1`"
		}
	}
	if len(c.incs) == 0 {
		return nil, false, "the counter is never incremented"
	}
	return c, fresh, ""
}

// counted: every path leaving block at has passed an increment of the counter
// in this iteration.
func (c *c12Counter) counted(at *ssa.BasicBlock) bool {
	for _, inc := range c.incs {
		if inc.Block() == at || inc.Block().Dominates(at) {
			return true
		}
	}
	return false
}

// ackReturns: returns of fn whose error operand is the constant nil.
func c12SplitReturns(fn *ssa.Function) (acks, others []ReturnInfo) {
	idx := ErrResultIndex(fn)
	for _, ri := range Returns(fn) {
		if IsNilConst(ri.Results[idx]) {
			acks = append(acks, ri)
		} else {
			others = append(others, ri)
		}
	}
	return
}

// checkFallthrough decides whether the error returned at a non-acknowledging
// return is, on every arm of the collector loop, known non-nil or carried over
// unchanged by an arm that counted a success.
func (cx *c12Ctx) checkFallthrough(fan *c12Fan, ctr *c12Counter, ri ReturnInfo, errIdx int) (status Status, detail string) {
	header := fan.recvLoop.Header
	msgErr := func(v ssa.Value) bool {
		f, ok := fan.msg.field(v)
		return ok && f == fan.errField
	}
	nonNil := func(v ssa.Value, facts []CondFact) bool {
		if isNonNilErrorExpr(v) {
			return true
		}
		same := func(o ssa.Value) bool {
			if sameOriginStrict(o, v) {
				return true
			}
			return msgErr(o) && msgErr(v)
		}
		k, isNil := c12NilFact(facts, same)
		return k && !isNil
	}
	seen := map[*ssa.Phi]bool{}
	status, detail = Discharged, ""
	bad := func(st Status, d string) {
		if status == Discharged || (status == Undecided && st == Violated) {
			status, detail = st, d
		}
	}
	var walk func(v ssa.Value, facts []CondFact, at *ssa.BasicBlock)
	walk = func(v ssa.Value, facts []CondFact, at *ssa.BasicBlock) {
		if nonNil(v, facts) {
			return
		}
		if phi, ok := v.(*ssa.Phi); ok {
			if phi.Block() == header && c12InLoop(header, at) && !(fan.recvLoop.Latch == at) {
				// the error carried into this iteration leaves arm `at` unchanged
				if !ctr.counted(at) {
					bad(Violated, fmt.Sprintf("a collector arm (block %d) neither counts a success nor records an error: with that answer the function can fall through and return a nil error without quorum", at.Index))
				}
			}
			if seen[phi] {
				return
			}
			seen[phi] = true
			for i, e := range phi.Edges {
				pred := phi.Block().Preds[i]
				walk(e, c12EdgeFacts(pred, phi.Block()), pred)
			}
			return
		}
		switch {
		case !(header == at || header.Dominates(at)):
			// value from before the collector loop: initial value; that it is overwritten
			// before the fall-through is the counting argument (not decided)
		case c12InLoop(header, at):
			bad(Violated, fmt.Sprintf("a collector arm (block %d) stores an error value not known to be non-nil into the returned error: a failed or mis-sized answer can be forgotten and nil returned without quorum", at.Index))
		default:
			bad(Undecided, "the returned error is recomputed after the collector loop from a value the analysis cannot prove non-nil")
		}
	}
	walk(ri.Results[errIdx], FactsAt(ri.Ret.Block()), ri.Ret.Block())
	if status == Discharged {
		detail = "on every collector arm the returned error is known non-nil or carried over by an arm that counted a success (initial value from before the loop; counting argument not decided)"
	}
	return
}

// sameOriginStrict is sameOrigin without the phi-edge relaxation.
func sameOriginStrict(a, b ssa.Value) bool {
	return a == b || originValue(a) == originValue(b)
}

// c12Collector checks the guard / counter / fall-through triple.
//
//	threshold: recognises the threshold side of the guard and says which
//	relations `counter REL threshold` are acceptable.
func (cx *c12Ctx) c12Collector(rule string, fan *c12Fan, guardName string,
	isThreshold func(ssa.Value) bool, relOK func(rel token.Token, thr ssa.Value, fresh bool) (bool, string),
	extraIncFact func(facts []CondFact) (bool, string)) {
	p, r := cx.p, cx.r
	fn := fan.top
	key := FuncKey(fn)
	errIdx := ErrResultIndex(fn)
	acks, others := c12SplitReturns(fn)
	if len(acks) == 0 {
		r.Violation(rule, key+"#"+guardName, p.Pos(fn.Pos()), "no return with a constant nil error found: success is reported through a value the rule cannot tie to the quorum comparison")
		return
	}
	var ctr *c12Counter
	for _, ri := range acks {
		site := c12Site(p, ri.Ret)
		var found bool
		var why string
		for _, f := range FactsAt(ri.Ret.Block()) {
			thr, cv, rel, ok := c12Relation(f, isThreshold)
			if !ok {
				continue
			}
			// c12Relation is phrased from the threshold side: threshold REL counter. Flip to counter REL threshold.
			flip := map[token.Token]token.Token{token.LSS: token.GTR, token.GTR: token.LSS, token.LEQ: token.GEQ, token.GEQ: token.LEQ, token.EQL: token.EQL, token.NEQ: token.NEQ}
			rel = flip[rel]
			c, fresh, prob := c12CounterOf(cv)
			if c == nil {
				why = prob
				continue
			}
			if ok, w := relOK(rel, thr, fresh); !ok {
				why = w
				continue
			}
			if fan.recvLoop == nil || c.phi.Block() != fan.recvLoop.Header {
				why = "the compared counter is not carried by the collector loop"
				continue
			}
			found, ctr = true, c
			break
		}
		if found {
			r.OK(rule, key+"#"+guardName, site, "nil-error return is dominated by the comparison of the collector's success counter with the threshold (counter >= threshold on every path here)")
		} else {
			if why == "" {
				why = "no dominating comparison between a counter and the threshold"
			}
			r.Violation(rule, key+"#"+guardName, site, "a return with nil error is not guarded by the quorum comparison: "+why)
		}
	}
	if ctr == nil {
		return
	}
	// increments only under success facts
	for _, inc := range ctr.incs {
		facts := FactsAt(inc.Block())
		k, isNil := c12NilFact(facts, func(v ssa.Value) bool {
			f, ok := fan.msg.field(v)
			return ok && f == fan.errField
		})
		switch {
		case !(k && isNil):
			r.Violation(rule, key+"#count-only-successes", c12Site(p, inc), "the success counter is incremented where the error of the current replica answer is not known nil: a failed replica would count towards the quorum")
		default:
			if extraIncFact != nil {
				if ok, why := extraIncFact(facts); !ok {
					r.Violation(rule, key+"#count-only-successes", c12Site(p, inc), why)
					continue
				}
			}
			r.OK(rule, key+"#count-only-successes", c12Site(p, inc), "counter+1 only in a block dominated by the success facts of the answer received in the same iteration")
		}
	}
	for _, ri := range others {
		v := ri.Results[errIdx]
		if isNonNilErrorExpr(v) {
			continue
		}
		if k, isNil := NilFact(ri.Ret.Block(), v); k && !isNil {
			continue // plain error return (e.g. the slurp failed)
		}
		st, detail := cx.checkFallthrough(fan, ctr, ri, errIdx)
		switch st {
		case Discharged:
			r.OK(rule, key+"#fallthrough-error", c12Site(p, ri.Ret), detail)
		case Violated:
			r.Violation(rule, key+"#fallthrough-error", c12Site(p, ri.Ret), detail)
		default:
			r.Undecided(rule, key+"#fallthrough-error", c12Site(p, ri.Ret), detail)
		}
	}
}

// ---------------------------------------------------------------------------
// Q-ack

func (cx *c12Ctx) report(rule, construct, site string, ok, undecided bool, detail string) {
	switch {
	case ok:
		cx.r.OK(rule, construct, site, detail)
	case undecided:
		cx.r.Undecided(rule, construct, site, detail)
	default:
		cx.r.Violation(rule, construct, site, detail)
	}
}

func c12QAck(cx *c12Ctx) {
	const rule = "Q-ack"
	p, r := cx.p, cx.r
	r.Floor(rule, 8)
	fn := cx.method("ReceiveBlob")
	key := FuncKey(fn)
	recvIface := p.Iface("pkg/blobserver", "BlobReceiver")
	isHelper := func(c CallSite) bool {
		return c.IsStatic("perkeep.org/pkg/blobserver", "", "ReceiveNoHash") || c.IsStatic("perkeep.org/pkg/blobserver", "", "Receive")
	}
	isOp := func(c CallSite) bool { return isHelper(c) || c.IsMethod("ReceiveBlob", recvIface) }
	dstOf := func(c CallSite) ssa.Value {
		if isHelper(c) {
			return c.Args()[1]
		}
		return c.Args()[0]
	}
	fan, prob, missing := c12FindFan(fn, isOp, dstOf)
	if fan == nil || prob != "" {
		cx.report(rule, key+"#fan-out", p.Pos(fn.Pos()), false, !missing, "replica upload: "+prob)
		return
	}
	ok, und, detail := cx.checkFanOut(fan, cx.fWRep, nil)
	cx.report(rule, key+"#fan-out", p.Pos(fan.spawn.Pos()), ok, und, "uploader "+detail)

	c12RightBytes(cx, rule, fan)

	if prob, und := fan.resolveChannel(); prob != "" {
		cx.report(rule, key+"#uploader-reports-once", p.Pos(fan.op.Pos()), false, und, prob)
		return
	}
	if fan.sbField < 0 {
		r.Violation(rule, key+"#uploader-reports-once", c12Site(p, fan.sends[0]), "the uploader's message does not carry the SizedRef the replica reported: the collector cannot check the stored size")
		return
	}
	ok, detail = fan.checkReportsOnce()
	r.Check(ok, rule, key+"#uploader-reports-once", c12Site(p, fan.sends[0]), detail+" and SizedRef", detail)

	ok, und, detail = cx.checkCollectCount(fan, cx.fWRep)
	cx.report(rule, key+"#collect-count", c12Site(p, fan.msg.recv), ok, und, detail)

	slurped := c12Slurp(fn, fan)
	isReported := func(v ssa.Value) bool {
		if b, ok := v.Type().Underlying().(*types.Basic); !ok || b.Info()&types.IsInteger == 0 {
			return false
		}
		return DependsOn(v, func(u ssa.Value) bool {
			f, ok := fan.msg.field(u)
			return ok && f == fan.sbField
		})
	}
	sizeFact := func(facts []CondFact) (bool, string) {
		if slurped == nil {
			return false, "cannot identify the slurped size to compare the replica's reported size with"
		}
		for _, f := range facts {
			cond, val := c12StripNot(f.Cond, f.Val)
			bo, ok := cond.(*ssa.BinOp)
			if !ok || (bo.Op != token.EQL && bo.Op != token.NEQ) || (bo.Op == token.EQL) != val {
				continue
			}
			if isReported(bo.X) && slurped(bo.Y) || isReported(bo.Y) && slurped(bo.X) {
				return true, ""
			}
		}
		return false, "the success counter is incremented where the size the replica reported is not known equal to the slurped size: a replica that stored a truncated blob would count towards the quorum"
	}
	relOK := func(rel token.Token, thr ssa.Value, fresh bool) (bool, string) {
		switch {
		case rel == token.GEQ:
			return true, ""
		case rel == token.EQL && fresh:
			return true, ""
		case rel == token.EQL:
			return false, "`==` is applied to the carried counter, not to the freshly incremented value, so a count can pass the threshold unseen"
		}
		return false, "the dominating comparison `counter " + rel.String() + " minWritesForSuccess` is not `>=` (or `==` on counter+1)"
	}
	cx.c12Collector(rule, fan, "ack-guard", func(v ssa.Value) bool { return cx.isFieldLoad(v, cx.fMin) }, relOK, sizeFact)

	// the acknowledged SizedRef
	acks, _ := c12SplitReturns(fn)
	for _, ri := range acks {
		v := ri.Results[0]
		f, isMsg := fan.msg.field(v)
		good := isMsg && f == fan.sbField
		if !good && slurped != nil {
			for _, part := range c12StructParts(v) {
				if _, isConst := part.(*ssa.Const); !isConst && slurped(part) {
					good = true
				}
			}
		}
		r.Check(good, rule, key+"#ack-value", c12Site(p, ri.Ret),
			"the acknowledged SizedRef is the one reported by the replica answer just counted (or is built from the slurped size)",
			"the acknowledged SizedRef is neither the counted replica's answer nor built from the slurped size")
	}
}

// c12StructParts returns the field values of a composite literal value
// (`T{a, b}` is lowered to stores into a fresh variable that is then loaded),
// or v itself.
func c12StructParts(v ssa.Value) []ssa.Value {
	ld, ok := v.(*ssa.UnOp)
	if !ok || ld.Op != token.MUL {
		return []ssa.Value{v}
	}
	al, ok := ld.X.(*ssa.Alloc)
	if !ok || al.Referrers() == nil {
		return []ssa.Value{v}
	}
	out := []ssa.Value{v}
	for _, r := range *al.Referrers() {
		if fa, ok := r.(*ssa.FieldAddr); ok && fa.Referrers() != nil {
			for _, rr := range *fa.Referrers() {
				if st, ok := rr.(*ssa.Store); ok && st.Addr == ssa.Value(fa) {
					out = append(out, st.Val)
				}
			}
		}
	}
	return out
}

// c12Slurp finds the call that reads the request body into memory before the
// fan-out and returns a predicate "v is (derived from) what was slurped".
func c12Slurp(fn *ssa.Function, fan *c12Fan) func(ssa.Value) bool {
	var src *ssa.Parameter
	for _, prm := range fn.Params {
		if IsNamed(prm.Type(), "io", "Reader") {
			src = prm
		}
	}
	if src == nil {
		return nil
	}
	for _, c := range CallsIn(fn, false) {
		call := c.Value()
		if call == nil {
			continue
		}
		uses := false
		var bufs []*ssa.Alloc
		for _, a := range c.Args() {
			switch o := originValue(a).(type) {
			case *ssa.Parameter:
				if o == src {
					uses = true
				}
			case *ssa.Alloc:
				bufs = append(bufs, o)
			}
		}
		if !uses {
			continue
		}
		if ok, _ := SuccessDominates(call, fan.spawn.Instr); !ok {
			continue
		}
		return func(v ssa.Value) bool {
			return DependsOn(v, func(u ssa.Value) bool {
				if u == ssa.Value(call) {
					return true
				}
				cell := u
				if c, ok := varOf(u); ok {
					cell = c
				}
				for _, b := range bufs {
					if cell == ssa.Value(b) {
						return true
					}
				}
				return false
			})
		}
	}
	return nil
}

func c12RightBytes(cx *c12Ctx, rule string, fan *c12Fan) {
	p, r := cx.p, cx.r
	fn := fan.top
	construct := FuncKey(fn) + "#right-bytes"
	site := p.Pos(fan.op.Pos())
	args := fan.op.Args()
	if len(args) != 4 {
		r.Undecided(rule, construct, site, "unexpected argument list of the per-replica receive call")
		return
	}
	if prm, ok := originValue(args[2]).(*ssa.Parameter); !ok || prm.Parent() != fn {
		r.Violation(rule, construct, site, "the blobref handed to the replica is not ReceiveBlob's own blobref parameter")
		return
	}
	slurped := c12Slurp(fn, fan)
	if slurped == nil {
		r.Violation(rule, construct, site, "no successful read of the src parameter into memory dominates the fan-out: the replicas would share (and race on) the request's reader")
		return
	}
	rd := originValue(args[3])
	if !slurped(rd) {
		r.Violation(rule, construct, site, "the reader handed to the replica is not derived from the bytes slurped from src")
		return
	}
	// one reader per upload
	fresh := false
	switch x := rd.(type) {
	case *ssa.Call:
		fresh = x.Parent() == fan.worker && (fan.worker != fn || (fan.loop != nil && c12InLoop(fan.loop.Header, x.Block())))
	case *ssa.Parameter:
		if x.Parent() == fan.worker && fan.worker != fn {
			for k, prm := range fan.worker.Params {
				if prm == x && k < len(fan.spawn.Common().Args) {
					if c, ok := originValue(fan.spawn.Common().Args[k]).(*ssa.Call); ok && fan.loop != nil && c12InLoop(fan.loop.Header, c.Block()) {
						fresh = true
					}
				}
			}
		}
	}
	r.Check(fresh, rule, construct, site,
		"each upload gets ReceiveBlob's blobref and its own reader, created per upload over the buffer that a successful read of src filled before the fan-out",
		"the reader handed to the replicas is created once and shared by all uploads: the first replica drains it and the others store nothing (and they race)")
}

// ---------------------------------------------------------------------------
// Q-remove

func c12QRemove(cx *c12Ctx) {
	const rule = "Q-remove"
	p, r := cx.p, cx.r
	r.Floor(rule, 6)
	fn := cx.method("RemoveBlobs")
	key := FuncKey(fn)
	iface := p.Iface("pkg/blobserver", "BlobRemover")
	isOp := func(c CallSite) bool { return c.IsMethod("RemoveBlobs", iface) }
	fan, prob, missing := c12FindFan(fn, isOp, func(c CallSite) ssa.Value { return c.Args()[0] })
	if fan == nil || prob != "" {
		cx.report(rule, key+"#fan-out", p.Pos(fn.Pos()), false, !missing, "replica removal: "+prob)
		return
	}
	ok, und, detail := cx.checkFanOut(fan, cx.fWRep, nil)
	if ok {
		if prm, isP := originValue(fan.op.Args()[2]).(*ssa.Parameter); !isP || prm.Parent() != fn {
			ok, detail = false, "the replicas are not asked to remove RemoveBlobs' own blobs argument"
		}
	}
	cx.report(rule, key+"#fan-out", p.Pos(fan.spawn.Pos()), ok, und, "removal "+detail)
	if prob, und := fan.resolveChannel(); prob != "" {
		cx.report(rule, key+"#reports-once", p.Pos(fan.op.Pos()), false, und, prob)
		return
	}
	ok, detail = fan.checkReportsOnce()
	r.Check(ok, rule, key+"#reports-once", c12Site(p, fan.sends[0]), detail, detail)
	ok, und, detail = cx.checkCollectCount(fan, cx.fWRep)
	cx.report(rule, key+"#collect-count", c12Site(p, fan.msg.recv), ok, und, detail)
	isConst := func(v ssa.Value) bool { _, ok := ConstInt(v); return ok }
	relOK := func(rel token.Token, thr ssa.Value, fresh bool) (bool, string) {
		n, _ := ConstInt(thr)
		if rel == token.GTR && n == 0 || rel == token.GEQ && n == 1 || rel == token.NEQ && n == 0 {
			return true, ""
		}
		return false, fmt.Sprintf("the dominating comparison `counter %s %d` does not mean 'at least one replica removed'", rel, n)
	}
	cx.c12Collector(rule, fan, "nil-guard", isConst, relOK, nil)
}

// ---------------------------------------------------------------------------
// Q-read

func c12QRead(cx *c12Ctx) {
	const rule = "Q-read"
	cx.r.Floor(rule, 9)
	cx.readFallback(rule, cx.method("Fetch"), "Fetch", cx.p.Iface("pkg/blob", "Fetcher"))
	cx.readFallback(rule, cx.method("OpenWholeRef"), "OpenWholeRef", cx.p.Iface("pkg/blobserver", "WholeRefFetcher"))
	cx.statDedup(rule)
	cx.enumerateDelegates(rule)
}

// readFallback: ordered fall-back over every read replica; the loop is left
// early only on success.
func (cx *c12Ctx) readFallback(rule string, fn *ssa.Function, method string, iface *types.Interface) {
	p, r := cx.p, cx.r
	key := FuncKey(fn)
	isOp := func(c CallSite) bool { return c.Value() != nil && c.IsMethod(method, iface) }
	fan, prob, missing := c12FindFan(fn, isOp, func(c CallSite) ssa.Value { return c.Args()[0] })
	if fan == nil || prob != "" {
		cx.report(rule, key+"#tries-every-read-replica", p.Pos(fn.Pos()), false, !missing, method+": "+prob)
		return
	}
	if fan.worker != fn {
		r.Undecided(rule, key+"#tries-every-read-replica", p.Pos(fan.op.Pos()), "the replica read happens in a function literal; ordered fall-back not followed")
		return
	}
	allowSkip := func(b *ssa.BasicBlock) bool {
		ifi, ok := b.Instrs[len(b.Instrs)-1].(*ssa.If)
		if !ok {
			return false
		}
		ex, ok := ifi.Cond.(*ssa.Extract)
		if !ok || ex.Index != 1 {
			return false
		}
		ta, ok := ex.Tuple.(*ssa.TypeAssert)
		return ok && fan.elem != nil && originValue(ta.X) == ssa.Value(fan.elem)
	}
	ok, und, detail := cx.checkFanOut(fan, cx.fRRep, allowSkip)
	cx.report(rule, key+"#tries-every-read-replica", p.Pos(fan.op.Pos()), ok, und, method+" "+detail+" (skipped only when the replica lacks the interface)")
	if !ok {
		return
	}
	opErr, hasErr, discarded := ErrValue(fan.op.Value())
	if !hasErr || discarded {
		r.Violation(rule, key+"#early-exit-only-on-success", p.Pos(fan.op.Pos()), "the replica's error is not looked at")
		return
	}
	isErr := func(o ssa.Value) bool { return sameOriginStrict(o, opErr) }
	h := fan.loop.Header
	bad := ""
	exits := 0
	for _, u := range fn.Blocks {
		if u == h || !c12InLoop(h, u) {
			continue
		}
		for _, v := range u.Succs {
			if c12InLoop(h, v) {
				continue
			}
			exits++
			if k, isNil := c12NilFact(c12EdgeFacts(u, v), isErr); !(k && isNil) {
				bad = fmt.Sprintf("the loop over the read replicas is left (block %d -> %d) where the current replica's error is not known nil: a failing or blob-less replica earlier in the list hides the copies held by later ones", u.Index, v.Index)
			}
		}
	}
	r.Check(bad == "", rule, key+"#early-exit-only-on-success", p.Pos(fan.op.Pos()),
		fmt.Sprintf("%d early exit edge(s) from the fall-back loop, all on the err==nil edge of the current replica's %s", exits, method), bad)
	n := 0
	good := true
	for _, ri := range Returns(fn) {
		if k, isNil := c12NilFact(FactsAt(ri.Ret.Block()), isErr); k && isNil {
			n++
			if rv := ResultValue(fan.op.Value(), 0); rv == nil || !sameOriginStrict(ri.Results[0], rv) {
				good = false
			}
		}
	}
	if n > 0 {
		r.Check(good, rule, key+"#returns-that-replicas-reader", p.Pos(fan.op.Pos()),
			"the return on the success edge hands back the reader of the replica that succeeded", "a return on the success edge does not hand back the successful replica's reader")
	}
}

// c12RefOfParam: v is prm.Ref for a blob.SizedRef parameter prm of fn.
func c12RefOfParam(v ssa.Value, fn *ssa.Function) bool {
	isParam := func(x ssa.Value) bool {
		prm, ok := x.(*ssa.Parameter)
		return ok && prm.Parent() == fn
	}
	switch x := v.(type) {
	case *ssa.Field:
		return fieldName(x.X.Type(), x.Field) == "Ref" && isParam(x.X)
	case *ssa.UnOp:
		if x.Op != token.MUL {
			return false
		}
		fa, ok := x.X.(*ssa.FieldAddr)
		if !ok || fieldName(fa.X.Type(), fa.Field) != "Ref" {
			return false
		}
		al, ok := fa.X.(*ssa.Alloc)
		if !ok {
			return false
		}
		var whole []*ssa.Store
		for _, st := range storesTo(al) {
			whole = append(whole, st)
		}
		// no field stores either
		if refs := al.Referrers(); refs != nil {
			for _, rr := range *refs {
				if f2, ok := rr.(*ssa.FieldAddr); ok && f2.Referrers() != nil {
					for _, r3 := range *f2.Referrers() {
						if st, ok := r3.(*ssa.Store); ok && st.Addr == ssa.Value(f2) {
							return false
						}
					}
				}
			}
		}
		return len(whole) == 1 && isParam(whole[0].Val)
	}
	return false
}

func (cx *c12Ctx) statDedup(rule string) {
	p, r := cx.p, cx.r
	fn := cx.method("StatBlobs")
	key := FuncKey(fn)
	iface := p.Iface("pkg/blobserver", "BlobStatter")
	isOp := func(c CallSite) bool { return c.Value() != nil && c.IsMethod("StatBlobs", iface) }
	fan, prob, missing := c12FindFan(fn, isOp, func(c CallSite) ssa.Value { return c.Args()[0] })
	if fan == nil || prob != "" {
		cx.report(rule, key+"#asks-every-read-replica", p.Pos(fn.Pos()), false, !missing, "replica stat: "+prob)
		return
	}
	ok, und, detail := cx.checkFanOut(fan, cx.fRRep, nil)
	if ok {
		if prm, isP := originValue(fan.op.Args()[2]).(*ssa.Parameter); !isP || prm.Parent() != fn {
			ok, detail = false, "the replicas are not asked about StatBlobs' own blobs argument"
		}
	}
	cx.report(rule, key+"#asks-every-read-replica", p.Pos(fan.spawn.Pos()), ok, und, "stat "+detail)

	cbs := FuncArgClosures(fan.op)
	if len(cbs) != 1 {
		r.Undecided(rule, key+"#report-once", p.Pos(fan.op.Pos()), "the callback handed to the replica's StatBlobs is not a function literal")
		return
	}
	cb := cbs[0]
	// calls of the caller's fn
	var userCalls []CallSite
	for _, c := range CallsIn(cb, true) {
		if c.Common().IsInvoke() || c.Callee() != nil {
			continue
		}
		if prm, ok := originValue(c.Common().Value).(*ssa.Parameter); ok && prm.Parent() == fn {
			userCalls = append(userCalls, c)
		}
	}
	// also a direct hand-over of fn to the replica would bypass the de-duplication
	if prm, ok := originValue(fan.op.Args()[3]).(*ssa.Parameter); ok && prm.Parent() == fn {
		r.Violation(rule, key+"#report-once", p.Pos(fan.op.Pos()), "the caller's fn is handed to every replica directly: a blob held by two read replicas is reported twice")
		return
	}
	if len(userCalls) == 0 {
		r.Violation(rule, key+"#report-once", p.Pos(cb.Pos()), "the per-replica callback never calls the caller's fn")
		return
	}
	li := AnalyzeLocks(fn, LockSet{})
	shared := func(v ssa.Value) bool { // declared once per StatBlobs call, outside any loop
		in, ok := v.(ssa.Instruction)
		return ok && in.Parent() == fn && c12InnermostLoop(in.Block()) == nil
	}
	for _, uc := range userCalls {
		site := p.Pos(uc.Pos())
		construct := key + "#report-once"
		if uc.Fn != cb {
			r.Undecided(rule, construct, site, "fn is called from a literal nested in the callback; not followed")
			continue
		}
		// the function-wide mutex held here
		lockPath := ""
		for _, c := range CallsIn(cb, false) {
			if k, path, ok := mutexOp(c); ok && k == "Lock" {
				if cell, ok := varOf(c.Args()[0]); ok && shared(cell) && li.Holds(uc.Instr, path, 'W') {
					lockPath = path
				}
			}
		}
		if lockPath == "" {
			r.Violation(rule, construct, site, "fn is called without holding a mutex shared by all replicas' callbacks: two replicas reporting the same blob race on the need map and can both report it")
			continue
		}
		// membership guard
		var need *ssa.MakeMap
		var lookup *ssa.Lookup
		for _, f := range FactsAt(uc.Block()) {
			cond, val := c12StripNot(f.Cond, f.Val)
			var lk *ssa.Lookup
			switch x := cond.(type) {
			case *ssa.Lookup:
				if !x.CommaOk {
					lk = x
				}
			case *ssa.Extract:
				if l2, ok := x.Tuple.(*ssa.Lookup); ok && l2.CommaOk && x.Index == 1 {
					lk = l2
				}
			}
			if lk == nil || !val {
				continue
			}
			if mm, ok := originValue(lk.X).(*ssa.MakeMap); ok && shared(mm) && c12RefOfParam(lk.Index, cb) {
				need, lookup = mm, lk
			}
		}
		if need == nil {
			r.Violation(rule, construct, site, "fn(sb) is not dominated by a positive membership test need[sb.Ref] on a map shared by all replicas' callbacks: a blob present on several read replicas is reported once per replica")
			continue
		}
		if !li.Holds(lookup, lockPath, 'W') {
			r.Violation(rule, construct, site, "the membership test need[sb.Ref] is evaluated outside the mutex")
			continue
		}
		// delete on the same path under the lock
		var del CallSite
		for _, c := range CallsIn(cb, false) {
			if c12Builtin(c, "delete") && originValue(c.Args()[0]) == ssa.Value(need) && c12RefOfParam(c.Args()[1], cb) {
				del = c
			}
		}
		okDel := false
		if del.Instr != nil && li.Holds(del.Instr, lockPath, 'W') {
			if Precedes(del.Instr, uc.Instr) {
				okDel = true
			} else {
				leaks := LeakingExits(PathQuery{Start: uc.Instr, Stop: func(in ssa.Instruction) bool { return in == ssa.Instruction(del.Instr) }, IgnorePanics: true})
				okDel = len(leaks) == 0
			}
		}
		if !okDel {
			r.Violation(rule, construct, site, "no delete(need, sb.Ref) under the mutex on every path that calls fn: the next replica holding the blob reports it again")
			continue
		}
		// need initialised with every requested blob before the fan-out
		okInit := false
		for _, b := range fn.Blocks {
			for _, in := range b.Instrs {
				mu, ok := in.(*ssa.MapUpdate)
				if !ok || originValue(mu.Map) != ssa.Value(need) {
					continue
				}
				l := c12InnermostLoop(b)
				if l == nil || l.Idx == nil || !l.FromZeroStep1 || !(l.Header.Dominates(fan.spawn.Block())) {
					continue
				}
				la, ok := c12LenArg(l.Bound)
				if !ok {
					continue
				}
				prm, ok := originValue(la).(*ssa.Parameter)
				if !ok || prm.Parent() != fn {
					continue
				}
				kl, ok := originValue(mu.Key).(*ssa.UnOp)
				if !ok || kl.Op != token.MUL {
					continue
				}
				ia, ok := kl.X.(*ssa.IndexAddr)
				if !ok || originValue(ia.X) != ssa.Value(prm) || ia.Index != l.Idx {
					continue
				}
				if c, ok := mu.Value.(*ssa.Const); ok && c.Value != nil && c.Value.String() == "true" && !c12SkipPath(l, b, nil) {
					okInit = true
				}
			}
		}
		r.Check(okInit, rule, construct, site,
			"fn(sb) runs under the function-wide mutex "+lockPath+", behind need[sb.Ref]==true on the function-wide map, with delete(need, sb.Ref) on the same path under the lock; need was set for every requested ref before the fan-out",
			"the need map is not filled with need[ref]=true for every element of the blobs argument before the replicas are asked: nothing (or not everything) would ever be reported")
	}
}

func (cx *c12Ctx) enumerateDelegates(rule string) {
	p, r := cx.p, cx.r
	fn := cx.method("EnumerateBlobs")
	construct := FuncKey(fn) + "#merged-over-read-replicas"
	calls := FindCalls(fn, false, func(c CallSite) bool {
		return c.IsStatic("perkeep.org/pkg/blobserver", "", "MergedEnumerateStorage")
	})
	if len(calls) != 1 || calls[0].Value() == nil {
		r.Violation(rule, construct, p.Pos(fn.Pos()), "EnumerateBlobs does not delegate to exactly one blobserver.MergedEnumerateStorage call: overlapping replicas would be enumerated with duplicates or out of order")
		return
	}
	c := calls[0]
	args := c.Args()
	bad := ""
	if !cx.isFieldLoad(args[2], cx.fRRep) {
		bad = "the sources merged are not sto." + cx.fieldName(cx.fRRep)
	}
	// ctx, dest, after, limit are the method's own parameters (params[0] is the receiver)
	for i, k := range map[int]int{0: 1, 1: 2, 3: 3, 4: 4} {
		if k >= len(fn.Params) || originValue(args[i]) != ssa.Value(fn.Params[k]) {
			bad = fmt.Sprintf("argument %d of MergedEnumerateStorage is not EnumerateBlobs' own parameter", i)
		}
	}
	for _, ri := range Returns(fn) {
		if !sameOriginStrict(ri.Results[0], c.Value()) {
			bad = "a return does not hand back MergedEnumerateStorage's error"
		}
	}
	r.Check(bad == "", rule, construct, p.Pos(c.Pos()),
		"delegates to MergedEnumerateStorage(ctx, dest, sto."+cx.fieldName(cx.fRRep)+", after, limit) and returns its error", bad)
}

// ---------------------------------------------------------------------------
// Q-config

// fieldStores lists the stores of fn to field f of a storage object.
func (cx *c12Ctx) fieldStores(fn *ssa.Function, f int) []*ssa.Store {
	var out []*ssa.Store
	for _, b := range fn.Blocks {
		for _, in := range b.Instrs {
			if st, ok := in.(*ssa.Store); ok {
				if g, ok := cx.fieldAddr(st.Addr); ok && g == f {
					out = append(out, st)
				}
			}
		}
	}
	return out
}

func c12ConfigCall(fn *ssa.Function, method, key string) *ssa.Call {
	for _, c := range CallsIn(fn, false) {
		if c.IsStatic("go4.org/jsonconfig", "Obj", method) && c.Value() != nil && len(c.Args()) >= 2 {
			if s, ok := ConstString(c.Args()[1]); ok && s == key {
				return c.Value()
			}
		}
	}
	return nil
}

func c12QConfig(cx *c12Ctx) {
	const rule = "Q-config"
	p, r := cx.p, cx.r
	r.Floor(rule, 16)
	fn := cx.ctor
	key := FuncKey(fn)
	pos := p.Pos(fn.Pos())

	backends := c12ConfigCall(fn, "RequiredList", "backends")
	isN := func(v ssa.Value) bool { // len(backends)
		a, ok := c12LenArg(v)
		if !ok {
			return false
		}
		return cx.isFieldLoad(a, cx.fWPref) || backends != nil && sameOriginStrict(a, backends)
	}
	// success returns: nil error
	var succ []ReturnInfo
	for _, ri := range Returns(fn) {
		if IsNilConst(ri.Results[ErrResultIndex(fn)]) {
			succ = append(succ, ri)
		}
	}
	if len(succ) == 0 {
		r.Undecided(rule, key+"#success-return", pos, "no return with a constant nil error in the constructor")
		return
	}

	// (1) config keys feed the right fields; quorum default = all
	{
		okKeys := backends != nil && len(cx.storesOf(fn, cx.fWPref, backends)) > 0
		rb := c12ConfigCall(fn, "OptionalList", "readBackends")
		okKeys = okKeys && rb != nil && len(cx.storesOf(fn, cx.fRPref, rb)) > 0
		r.Check(okKeys, rule, key+"#config-keys", pos,
			"config key backends feeds the write prefixes and readBackends the read prefixes",
			"the write/read prefix fields are not filled from config keys backends/readBackends respectively")
		mw := c12ConfigCall(fn, "OptionalInt", "minWritesForSuccess")
		switch {
		case mw == nil || len(cx.storesOf(fn, cx.fMin, mw)) == 0:
			r.Violation(rule, key+"#quorum-default-all", pos, "the quorum field is not set from config key minWritesForSuccess")
		case !isN(mw.Call.Args[2]):
			r.Violation(rule, key+"#quorum-default-all", p.Pos(mw.Pos()), "the default of minWritesForSuccess is not len(backends): an unconfigured replica set would acknowledge before all replicas stored the blob (documented default: all)")
		default:
			r.OK(rule, key+"#quorum-default-all", p.Pos(mw.Pos()), "minWritesForSuccess defaults to len(backends) and is stored in the quorum field")
		}
	}

	// helper: a conditional default `if COND { obj.f = VAL }` whose test precedes every success return
	condDefault := func(f int, valOK func(ssa.Value) bool, condOK func(cond ssa.Value, val bool) bool) (*ssa.Store, *ssa.BasicBlock) {
		for _, st := range cx.fieldStores(fn, f) {
			if !valOK(st.Val) {
				continue
			}
			for _, fact := range FactsAt(st.Block()) {
				cond, val := c12StripNot(fact.Cond, fact.Val)
				if !condOK(cond, val) {
					continue
				}
				all := true
				for _, ri := range succ {
					if !(fact.At == ri.Ret.Block() || fact.At.Dominates(ri.Ret.Block())) {
						all = false
					}
				}
				if all {
					return st, fact.At
				}
			}
		}
		return nil, nil
	}
	isZeroTest := func(isSubject func(ssa.Value) bool) func(cond ssa.Value, val bool) bool {
		return func(cond ssa.Value, val bool) bool {
			bo, ok := cond.(*ssa.BinOp)
			if !ok || (bo.Op != token.EQL && bo.Op != token.NEQ) || (bo.Op == token.EQL) != val {
				return false
			}
			zero := func(v ssa.Value) bool {
				if n, ok := ConstInt(v); ok && n == 0 {
					return true
				}
				return IsNilConst(v)
			}
			return isSubject(bo.X) && zero(bo.Y) || isSubject(bo.Y) && zero(bo.X)
		}
	}

	// (2) configured 0 means all
	{
		mw := c12ConfigCall(fn, "OptionalInt", "minWritesForSuccess")
		isMin := func(v ssa.Value) bool {
			return cx.isFieldLoad(v, cx.fMin) || mw != nil && sameOriginStrict(v, mw)
		}
		st, _ := condDefault(cx.fMin, isN, isZeroTest(isMin))
		if st != nil {
			r.OK(rule, key+"#zero-quorum-means-all", c12Site(p, st), "a quorum of 0 is replaced by len(backends) before any success return")
		} else {
			r.Violation(rule, key+"#zero-quorum-means-all", pos, "a configured minWritesForSuccess of 0 is not replaced by len(backends) before the storage is returned: with `==` no write is ever acknowledged and the fall-through returns a nil error without quorum")
		}
	}

	// (3) at least one backend
	for _, ri := range succ {
		found := false
		for _, f := range FactsAt(ri.Ret.Block()) {
			_, thr, rel, ok := c12Relation(f, isN)
			if !ok {
				continue
			}
			if n, isC := ConstInt(thr); isC && (rel == token.NEQ && n == 0 || rel == token.GTR && n == 0 || rel == token.GEQ && n == 1) {
				found = true
			}
		}
		r.Check(found, rule, key+"#rejects-zero-replicas", c12Site(p, ri.Ret),
			"the success return is dominated by len(backends) != 0",
			"a storage with zero write replicas can be returned: every receive would fall through with a nil error and nothing stored")
	}

	// (4) readBackends default to backends, before the read replicas are resolved
	var readDefaultAt *ssa.BasicBlock
	{
		isRP := func(v ssa.Value) bool {
			if cx.isFieldLoad(v, cx.fRPref) {
				return true
			}
			a, ok := c12LenArg(v)
			return ok && cx.isFieldLoad(a, cx.fRPref)
		}
		valOK := func(v ssa.Value) bool {
			return cx.isFieldLoad(v, cx.fWPref) || backends != nil && sameOriginStrict(v, backends)
		}
		st, at := condDefault(cx.fRPref, valOK, isZeroTest(isRP))
		readDefaultAt = at
		if st != nil {
			r.OK(rule, key+"#read-defaults-to-write", c12Site(p, st), "an empty readBackends list is replaced by backends before any success return")
		} else {
			r.Violation(rule, key+"#read-defaults-to-write", pos, "an empty readBackends list is not replaced by backends: the storage would have no read replicas and Fetch would return (nil, 0, nil)")
		}
	}

	// (5)/(6) one replica per prefix, complete before success
	fill := func(pref, rep int, what string, mustFollow *ssa.BasicBlock) {
		construct := key + "#" + what + "-one-per-prefix"
		var good *ssa.Store
		why := "no loop over sto." + cx.fieldName(pref) + " appends the resolved storage to sto." + cx.fieldName(rep)
		for _, st := range cx.fieldStores(fn, rep) {
			call, ok := st.Val.(*ssa.Call)
			if !ok || !c12Builtin(CallSite{fn, call}, "append") || !cx.isFieldLoad(call.Call.Args[0], rep) {
				continue
			}
			l := c12InnermostLoop(st.Block())
			if l == nil || l.Idx == nil {
				continue
			}
			if !l.FromZeroStep1 || !cx.lenOfField(l.Bound, pref) {
				why = "the loop filling sto." + cx.fieldName(rep) + " does not run over every element of sto." + cx.fieldName(pref)
				continue
			}
			fromPrefix := false
			for _, av := range c12AppendedValues(call.Call.Args[1]) {
				if DependsOn(av, func(u ssa.Value) bool {
					ia, ok := u.(*ssa.IndexAddr)
					return ok && cx.isFieldLoad(ia.X, pref) && ia.Index == l.Idx
				}) {
					fromPrefix = true
				}
			}
			if !fromPrefix {
				why = "the storage appended to sto." + cx.fieldName(rep) + " is not resolved from the current element of sto." + cx.fieldName(pref)
				continue
			}
			if c12SkipPath(l, st.Block(), nil) {
				why = "some iteration over sto." + cx.fieldName(pref) + " continues without appending a replica: indexes of prefixes and replicas no longer correspond and fewer replicas exist than the quorum assumes"
				continue
			}
			done := true
			for _, ri := range succ {
				if !(l.Done == ri.Ret.Block() || l.Done.Dominates(ri.Ret.Block())) {
					done = false
				}
			}
			if !done {
				why = "a success return can be reached before the loop over sto." + cx.fieldName(pref) + " has finished"
				continue
			}
			if mustFollow != nil {
				// the prefixes iterated must be read after the defaulting
				la, _ := c12LenArg(l.Bound)
				ld, _ := originValue(la).(*ssa.UnOp)
				if ld == nil || !(mustFollow.Dominates(ld.Block()) && mustFollow != ld.Block()) {
					why = "the read prefixes are iterated before the empty-list default is applied"
					continue
				}
			}
			good = st
		}
		if good != nil {
			r.OK(rule, construct, c12Site(p, good), "every element of sto."+cx.fieldName(pref)+" is resolved and appended to sto."+cx.fieldName(rep)+" (or the constructor fails) before any success return")
		} else {
			r.Violation(rule, construct, pos, why)
		}
	}
	fill(cx.fWPref, cx.fWRep, "write-replicas", nil)
	fill(cx.fRPref, cx.fRRep, "read-replicas", readDefaultAt)

	// (7) other constructors: quorum = number of write replicas
	// (8) fields are written only on objects allocated in the same function
	type fk struct {
		fn *ssa.Function
		f  int
	}
	writes := map[fk]*ssa.Store{}
	var order []fk
	for _, f := range p.FuncsIn(c12Rel) {
		allocates := false
		for _, b := range f.Blocks {
			for _, in := range b.Instrs {
				switch x := in.(type) {
				case *ssa.Alloc:
					if pt, ok := x.Type().(*types.Pointer); ok && cx.isObj(pt.Elem()) {
						if _, isPtr := pt.Elem().(*types.Pointer); !isPtr {
							allocates = true
						}
					}
				case *ssa.Store:
					if g, ok := cx.fieldAddr(x.Addr); ok {
						k := fk{f, g}
						if _, dup := writes[k]; !dup {
							order = append(order, k)
						}
						if prev := writes[k]; prev == nil || !c12FreshObj(prev) {
							writes[k] = x
						}
						if !c12FreshObj(x) {
							writes[k] = x
						}
					}
				}
			}
		}
		if allocates && f != fn {
			okQ := false
			for _, st := range cx.fieldStores(f, cx.fMin) {
				a, ok := c12LenArg(st.Val)
				if !ok {
					continue
				}
				for _, ws := range cx.fieldStores(f, cx.fWRep) {
					if sameOriginStrict(ws.Val, a) {
						okQ = true
					}
				}
			}
			r.Check(okQ, rule, FuncKey(f)+"#quorum-all", p.Pos(f.Pos()),
				"sets the quorum to len of the very slice it installs as write replicas",
				"constructs a replica storage whose quorum is not the number of its write replicas")
		}
	}
	for _, k := range order {
		st := writes[k]
		r.Check(c12FreshObj(st), rule, FuncKey(k.fn)+"#writes-"+cx.fieldName(k.f), c12Site(p, st),
			"field written only on the object this function allocated (construction time)",
			"a replicaStorage field is modified after construction: replica sets and quorum are read without synchronisation and are assumed constant by every rule of this property")
	}
}

// c12AppendedValues returns the element values of the variadic argument of
// append(s, x, y...) (go/ssa spills them into a fresh array), or the argument
// itself for append(s, t...).
func c12AppendedValues(arg ssa.Value) []ssa.Value {
	sl, ok := arg.(*ssa.Slice)
	if !ok {
		return []ssa.Value{arg}
	}
	al, ok := sl.X.(*ssa.Alloc)
	if !ok || al.Referrers() == nil {
		return []ssa.Value{arg}
	}
	var out []ssa.Value
	for _, r := range *al.Referrers() {
		if ia, ok := r.(*ssa.IndexAddr); ok && ia.Referrers() != nil {
			for _, rr := range *ia.Referrers() {
				if st, ok := rr.(*ssa.Store); ok && st.Addr == ssa.Value(ia) {
					out = append(out, st.Val)
				}
			}
		}
	}
	return out
}

// storesOf: stores of fn to field f whose value is v.
func (cx *c12Ctx) storesOf(fn *ssa.Function, f int, v ssa.Value) []*ssa.Store {
	var out []*ssa.Store
	for _, st := range cx.fieldStores(fn, f) {
		if sameOriginStrict(st.Val, v) {
			out = append(out, st)
		}
	}
	return out
}

// c12FreshObj: the store writes a field of an object allocated in the same function.
func c12FreshObj(st *ssa.Store) bool {
	fa, ok := st.Addr.(*ssa.FieldAddr)
	if !ok {
		return false
	}
	al, ok := originValue(fa.X).(*ssa.Alloc)
	return ok && al.Parent() == st.Parent()
}
