package main

import (
	"fmt"
	"go/token"
	"go/types"

	"golang.org/x/tools/go/ssa"
)

func init() {
	register(&PropSpec{
		ID:    "C12",
		Title: "Replicated writes are acknowledged only at quorum; reads survive replica loss",
		Explanation: "Decided (structural necessary conditions, all in pkg/blobserver/replica; anchors resolved by role: the package's blobserver.Storage implementer, its interface methods as entry points, and the constructor registered with RegisterStorageConstructor). Every clause is checked on the EFFECTIVE BODY of its entry point: the entry point plus, transitively (depth 6), the function literals, unexported functions/methods of the package, methods of state objects and bound method values it calls or hands on; a helper's parameter stands for its caller's argument, a helper's result for the value its (not contradicted) returns hand back, a field of a once-built state object for the only value stored there; branch facts known at a call site are known in the helper, a fact about a helper's boolean/error result implies the facts common to the returns that can produce it; 'precedes/succeeded before' is lifted across synchronous calls; a helper is entered with a mutex held when its only caller holds it. " +
			"Q-ack — in ReceiveBlob's effective body (i) one uploader is started exactly once per element of the write-replica slice with that element as destination, and every function between the loop and the upload reaches the upload on every path; (ii) every path of the reporting worker sends exactly one message (sends of helpers counted) and the message carries the error and SizedRef of that replica's receive call; (iii) the replica receives the request's blobref and a reader created per upload over the buffer that a successful, error-checked read of src (a call outside the package taking src, not a helper taken on trust) filled before the fan-out; (iv) the collector receives once per write replica; (v) every way out with a nil error (returns of helpers whose results are handed back included) is dominated by a comparison counter==/>= sto.minWritesForSuccess (== only on the freshly incremented value); (vi) the counter is a loop-carried value starting at 0 that is only ever incremented by 1, in blocks where the current message's error is known nil and its reported size is known equal to the slurped size; (vii) the error of every other way out is, on each loop arm, either known non-nil or left unchanged by an arm that counted a success; (viii) the acknowledged SizedRef is the counted replica's answer or is built from the slurped size. " +
			"Q-read — Fetch and OpenWholeRef iterate over every element of the read-replica slice from index 0 in steps of 1, skip an element only on a failed type assertion, leave the loop early only where the current replica's error is known nil, and where that error is known nil the reader handed back (also through a merged result variable) is that replica's; StatBlobs asks every read replica for all requested blobs, and the caller's fn is invoked only in the callback's effective body, with a mutex created once per StatBlobs call held, behind a positive membership test need[sb.Ref] on a map created once per call and filled with every requested ref before the fan-out, the mutex not being released between test and call, with delete(need, sb.Ref) on the same path under the same lock; EnumerateBlobs delegates to MergedEnumerateStorage over the read-replica slice with its own ctx/dest/after/limit. " +
			"Q-remove — RemoveBlobs asks every write replica once, every worker reports exactly once, the collector receives once per replica, nil is returned only behind counter>0 where the counter counts only nil results, and the other return's error is set by every failing arm. " +
			"Q-config — the registered constructor takes the quorum from config key minWritesForSuccess with default len(backends), maps a configured 0 to len(backends) (by a conditional field store or by a value defaulted in a local and stored afterwards), rejects an empty backends list, defaults readBackends to backends before resolving them, fills the write (read) replica slice with exactly one storage per backends (readBackends) entry — appended in place or built in a local/helper and installed — before any success return; every other entry point that builds a storage sets the quorum to the number of write replicas; a replicaStorage field is written only on an object the writing function allocated or that every caller of that unexported, never-escaping helper allocated and handed in. " +
			"NOT decided: the counting argument that the fall-through return is non-nil for every failure subset (it needs 1<=minWritesForSuccess<=len(replicas); the constructor does not reject a configured value above the replica count or below zero, which is outside the property's quantifier 1..n and is not demanded); slow or hanging replicas and timing; what replicas actually store; overlap of replica contents and the correctness of MergedEnumerateStorage itself (C01 M-dedup); that fn errors propagate; goroutine/channel capacity hygiene (C13). Not followed (always reported, never silently passed): helpers entered from several places of one entry point, counters or returned errors threaded through a helper's parameters and results, result channels used in select, state objects reachable through unidentified aliases.",
		RuleDocs: map[string]string{
			"Q-ack":    "replicaStorage.ReceiveBlob (effective body): fan-out per write replica, one report per uploader carrying the replica's (SizedRef, error), right ref/bytes, collector count, nil-error ways out dominated by counter vs minWritesForSuccess, counter incremented only under {err==nil, size==slurped}, other returns' error set by every non-success arm",
			"Q-read":   "Fetch/OpenWholeRef (effective body): ordered fall-back over every read replica, early exit only on success, success hands back that replica's reader; StatBlobs: every read replica asked, fn behind need[ref] + delete under one per-call mutex held from test to call; EnumerateBlobs: MergedEnumerateStorage over the read replicas",
			"Q-remove": "replicaStorage.RemoveBlobs (effective body): every write replica asked once, one report per worker, collector count, nil only behind nSuccess>0 counted under err==nil",
			"Q-config": "constructors (effective body): quorum default/zero = all replicas, >=1 backend, readBackends default, one replica per prefix before success, fields written only during construction (helpers: every caller hands in an object it allocated)",
		},
		Run:       runC12,
		DesignRef: "DESIGN.md §4 C12",
		Technique: "static analysis on go/ssa over the effective body of each entry point (entry point + literals, unexported helpers, state-object methods and bound method values, parameters mapped to arguments, results to returned values): dominance facts carried across calls (quorum guard, success-only counting), loop-carried value analysis of the returned error, range/counting/rotated loop recognition for fan-out/collect agreement, value dependence for ref/bytes, per-path message counting, must-hold lock analysis across calls for the stat de-duplication",
		LevelText: "Decides structural necessary conditions only: every way the replicated ReceiveBlob returns a nil error is dominated by the quorum comparison on a counter that counts only correctly sized, error-free replica answers, one answer per write replica; reads fall back over every read replica and leave early only on success; stat reports are de-duplicated under one per-call lock; the constructor's defaults make the quorum 'all replicas'. The verdict does not depend on whether this code sits in the entry points, in closures, in unexported helpers or in methods of state objects. Does not decide the counting argument for the fall-through error (and so not out-of-range quorum configuration), timing/slow replicas, or replica contents.",
	})
}

const c12Rel = "pkg/blobserver/replica"

// c12Ctx carries the anchors of the property.
type c12Ctx struct {
	p      *Program
	r      *Reporter
	typ    *types.Named // the replicated storage type
	ctor   *ssa.Function
	idx    *c12Index
	scopes map[*ssa.Function]*c12Scope
	// field indexes (anchored by name)
	fMin, fWPref, fRPref, fWRep, fRRep int
}

func runC12(p *Program, r *Reporter) {
	cx := c12Resolve(p, r)
	r.Analysed("functions", len(p.FuncsIn(c12Rel)))
	c12QConfig(cx)
	c12QAck(cx)
	c12QRead(cx)
	c12QRemove(cx)
}

func c12Resolve(p *Program, r *Reporter) *c12Ctx {
	cx := &c12Ctx{p: p, r: r}
	for _, n := range p.Implementers(p.Iface("pkg/blobserver", "Storage"), false) {
		if RelPkg(n.Obj().Pkg()) == c12Rel {
			if cx.typ != nil {
				brokenf("anchor unresolved: more than one blobserver.Storage implementer in %s", c12Rel)
			}
			cx.typ = n
		}
	}
	if cx.typ == nil {
		brokenf("anchor unresolved: no blobserver.Storage implementer in %s", c12Rel)
	}
	st, ok := cx.typ.Underlying().(*types.Struct)
	if !ok {
		brokenf("anchor unresolved: %s is not a struct", cx.typ)
	}
	// The five fields are anchored by name; after a rename they are found by
	// role instead: the two []string fields are the write and read prefixes,
	// the two []blobserver.Storage fields the write and read replicas (declared
	// write before read), the only int field the quorum.
	byName := func(name string) int {
		for i := 0; i < st.NumFields(); i++ {
			if st.Field(i).Name() == name {
				return i
			}
		}
		return -1
	}
	cx.fMin, cx.fWPref, cx.fRPref = byName("minWritesForSuccess"), byName("replicaPrefixes"), byName("readPrefixes")
	cx.fWRep, cx.fRRep = byName("replicas"), byName("readReplicas")
	if cx.fMin < 0 || cx.fWPref < 0 || cx.fRPref < 0 || cx.fWRep < 0 || cx.fRRep < 0 {
		storage := p.Iface("pkg/blobserver", "Storage")
		var strs, stos, ints []int
		for i := 0; i < st.NumFields(); i++ {
			switch t := st.Field(i).Type().Underlying().(type) {
			case *types.Slice:
				if b, ok := t.Elem().Underlying().(*types.Basic); ok && b.Kind() == types.String {
					strs = append(strs, i)
				} else if it, ok := t.Elem().Underlying().(*types.Interface); ok && types.Identical(it, storage) {
					stos = append(stos, i)
				}
			case *types.Basic:
				if t.Kind() == types.Int {
					ints = append(ints, i)
				}
			}
		}
		if len(strs) != 2 || len(stos) != 2 || len(ints) != 1 {
			brokenf("anchor unresolved: fields of %s (by name: minWritesForSuccess, replicaPrefixes, readPrefixes, replicas, readReplicas; by role: two []string, two []blobserver.Storage, one int)", cx.typ.Obj().Name())
		}
		cx.fWPref, cx.fRPref, cx.fWRep, cx.fRRep, cx.fMin = strs[0], strs[1], stos[0], stos[1], ints[0]
	}
	for _, fn := range p.FuncsIn(c12Rel) {
		for _, c := range CallsIn(fn, false) {
			if c.IsStatic("perkeep.org/pkg/blobserver", "", "RegisterStorageConstructor") && len(c.Args()) == 2 {
				if f, ok := originValue(c.Args()[1]).(*ssa.Function); ok && f.Blocks != nil {
					cx.ctor = f
				}
			}
		}
	}
	if cx.ctor == nil {
		brokenf("anchor unresolved: constructor registered with blobserver.RegisterStorageConstructor in %s", c12Rel)
	}
	return cx
}

func (cx *c12Ctx) method(name string) *ssa.Function {
	f, declared := cx.p.MethodOf(cx.typ, name)
	if f == nil || !declared || f.Blocks == nil {
		brokenf("anchor unresolved: %s.(%s).%s", c12Rel, cx.typ.Obj().Name(), name)
	}
	return f
}

func (cx *c12Ctx) fieldName(i int) string {
	return cx.typ.Underlying().(*types.Struct).Field(i).Name()
}

// isObj reports whether t is (a pointer to) the replicated storage type.
func (cx *c12Ctx) isObj(t types.Type) bool {
	n := NamedOf(t)
	return n != nil && n.Obj() == cx.typ.Obj()
}

// fieldAddr: v is &obj.field of the storage type.
func (cx *c12Ctx) fieldAddr(v ssa.Value) (int, bool) {
	fa, ok := v.(*ssa.FieldAddr)
	if !ok || !cx.isObj(fa.X.Type()) {
		return 0, false
	}
	return fa.Field, true
}

func c12Builtin(c CallSite, name string) bool {
	b, ok := c.Common().Value.(*ssa.Builtin)
	return ok && b.Name() == name
}

// ---------------------------------------------------------------------------
// Loops

// c12Loop is a natural loop; Idx/Bound are set when the header has the shape
// `if idx < bound` (range-over-slice, range-over-int and classic counting loops).
type c12Loop struct {
	Header *ssa.BasicBlock
	Body   *ssa.BasicBlock // successor taken while the loop continues
	Done   *ssa.BasicBlock
	Idx    ssa.Value // per-iteration index compared against Bound (nil: shape not recognised)
	Bound  ssa.Value
	// FromZeroStep1: the first compared index is 0 and it grows by exactly 1 per iteration.
	FromZeroStep1 bool
	// Latch is set for rotated loops (go/ssa's range-over-int): the test sits at
	// the bottom, Header == Body, and an entry guard `0 < bound` precedes the loop.
	Latch *ssa.BasicBlock
}

// NormalExit is the block whose false edge ends the loop normally.
func (l *c12Loop) NormalExit() *ssa.BasicBlock {
	if l.Latch != nil {
		return l.Latch
	}
	return l.Header
}

// c12InLoop: b belongs to the natural loop headed by h (h dominates b and b
// reaches h through blocks dominated by h).
func c12InLoop(h, b *ssa.BasicBlock) bool {
	if !(h == b || h.Dominates(b)) {
		return false
	}
	seen := map[*ssa.BasicBlock]bool{}
	var walk func(x *ssa.BasicBlock) bool
	walk = func(x *ssa.BasicBlock) bool {
		for _, s := range x.Succs {
			if s == h {
				return true
			}
			if seen[s] || !h.Dominates(s) {
				continue
			}
			seen[s] = true
			if walk(s) {
				return true
			}
		}
		return false
	}
	return walk(b)
}

// c12InnermostLoop returns the innermost natural loop containing b, or nil.
func c12InnermostLoop(b *ssa.BasicBlock) *c12Loop {
	for d := b; d != nil; d = d.Idom() {
		if !c12InLoop(d, b) {
			continue
		}
		l := &c12Loop{Header: d}
		if len(d.Instrs) == 0 {
			return l
		}
		if c12Rotated(l); l.Latch != nil {
			return l // test at the bottom (possibly of the header block itself)
		}
		ifi, ok := d.Instrs[len(d.Instrs)-1].(*ssa.If)
		if ok && len(d.Succs) == 2 {
			if bo, ok := ifi.Cond.(*ssa.BinOp); ok && bo.Op == token.LSS && (d.Succs[0] == b || d.Succs[0].Dominates(b)) {
				l.Body, l.Done = d.Succs[0], d.Succs[1]
				l.Idx, l.Bound = bo.X, bo.Y
				l.FromZeroStep1 = c12FromZeroStep1(bo.X, d)
				return l
			}
		}
		return l
	}
	return nil
}

// c12Rotated recognises go/ssa's lowering of `for i := range n`:
//
//	   if 0 < n goto body else done
//	loop: incr = iter + 1; if incr < n goto body else done
//	body: iter = phi [0, incr] ... jump loop
func c12Rotated(l *c12Loop) {
	h := l.Header
	var latch, entry *ssa.BasicBlock
	for _, pr := range h.Preds {
		if h.Dominates(pr) {
			if latch != nil {
				return
			}
			latch = pr
		} else {
			if entry != nil {
				return
			}
			entry = pr
		}
	}
	if latch == nil || entry == nil || len(latch.Succs) != 2 || latch.Succs[0] != h || len(entry.Succs) != 2 || entry.Succs[0] != h {
		return
	}
	lif, ok1 := latch.Instrs[len(latch.Instrs)-1].(*ssa.If)
	eif, ok2 := entry.Instrs[len(entry.Instrs)-1].(*ssa.If)
	if !ok1 || !ok2 {
		return
	}
	lc, ok1 := lif.Cond.(*ssa.BinOp)
	ec, ok2 := eif.Cond.(*ssa.BinOp)
	if !ok1 || !ok2 || lc.Op != token.LSS || ec.Op != token.LSS || lc.Y != ec.Y || latch.Succs[1] != entry.Succs[1] {
		return
	}
	if z, ok := ConstInt(ec.X); !ok || z != 0 {
		return
	}
	incr, ok := lc.X.(*ssa.BinOp)
	if !ok || incr.Op != token.ADD {
		return
	}
	phi, ok := incr.X.(*ssa.Phi)
	if one, isC := ConstInt(incr.Y); !ok || !isC || one != 1 || phi.Block() != h || len(phi.Edges) != 2 {
		return
	}
	for i, e := range phi.Edges {
		if h.Preds[i] == latch && e != ssa.Value(incr) {
			return
		}
		if h.Preds[i] == entry {
			if z, ok := ConstInt(e); !ok || z != 0 {
				return
			}
		}
	}
	l.Body, l.Done, l.Latch = h, latch.Succs[1], latch
	l.Idx, l.Bound, l.FromZeroStep1 = phi, lc.Y, true
}

func c12FromZeroStep1(idx ssa.Value, h *ssa.BasicBlock) bool {
	plus1 := func(v ssa.Value, base ssa.Value) bool {
		bo, ok := v.(*ssa.BinOp)
		if !ok || bo.Op != token.ADD {
			return false
		}
		if n, ok := ConstInt(bo.Y); ok && n == 1 && bo.X == base {
			return true
		}
		if n, ok := ConstInt(bo.X); ok && n == 1 && bo.Y == base {
			return true
		}
		return false
	}
	check := func(phi *ssa.Phi, first int64, next func(e ssa.Value) bool) bool {
		if phi.Block() != h {
			return false
		}
		for i, e := range phi.Edges {
			pred := h.Preds[i]
			if h.Dominates(pred) { // back edge
				if !next(e) {
					return false
				}
			} else if n, ok := ConstInt(e); !ok || n != first {
				return false
			}
		}
		return true
	}
	switch x := idx.(type) {
	case *ssa.BinOp: // range loops: idx = phi + 1, phi = [-1, idx]
		if x.Op != token.ADD {
			return false
		}
		phi, ok := x.X.(*ssa.Phi)
		if !ok || !plus1(x, phi) {
			return false
		}
		return check(phi, -1, func(e ssa.Value) bool { return e == ssa.Value(x) })
	case *ssa.Phi: // classic: i = phi [0, i+1]
		return check(x, 0, func(e ssa.Value) bool { return plus1(e, x) })
	}
	return false
}

// c12SkipPath reports whether some path from the loop body entry back to the
// header avoids block must. allowSkip (optional) names If blocks whose false
// edge may legitimately skip (e.g. a failed type assertion).
func c12SkipPath(l *c12Loop, must *ssa.BasicBlock, allowSkip func(ifBlock *ssa.BasicBlock) bool) bool {
	if l.Body == nil {
		return true
	}
	seen := map[*ssa.BasicBlock]bool{}
	var walk func(b *ssa.BasicBlock, first bool) bool
	walk = func(b *ssa.BasicBlock, first bool) bool {
		if b == must {
			return false
		}
		if b == l.Header && !first {
			return true
		}
		if seen[b] {
			return false
		}
		seen[b] = true
		for i, s := range b.Succs {
			if i == 1 && len(b.Succs) == 2 && allowSkip != nil && allowSkip(b) {
				continue
			}
			if walk(s, false) {
				return true
			}
		}
		return false
	}
	return walk(l.Body, true)
}

// ---------------------------------------------------------------------------
// Facts

// c12EdgeFacts: the branch conditions known when control flows pred -> succ.
func c12EdgeFacts(pred, succ *ssa.BasicBlock) []CondFact {
	out := FactsAt(pred)
	if len(pred.Instrs) > 0 && len(pred.Succs) == 2 && pred.Succs[0] != pred.Succs[1] {
		if ifi, ok := pred.Instrs[len(pred.Instrs)-1].(*ssa.If); ok {
			if pred.Succs[0] == succ {
				out = append(out, CondFact{ifi.Cond, true, pred})
			} else if pred.Succs[1] == succ {
				out = append(out, CondFact{ifi.Cond, false, pred})
			}
		}
	}
	return out
}

func c12StripNot(cond ssa.Value, val bool) (ssa.Value, bool) {
	for {
		u, ok := cond.(*ssa.UnOp)
		if !ok || u.Op != token.NOT {
			return cond, val
		}
		cond, val = u.X, !val
	}
}

// c12NilFact: do the facts say that a value satisfying is is nil / non-nil?
func c12NilFact(facts []CondFact, is func(ssa.Value) bool) (known, isNil bool) {
	for _, f := range facts {
		cond, val := c12StripNot(f.Cond, f.Val)
		bo, ok := cond.(*ssa.BinOp)
		if !ok || (bo.Op != token.EQL && bo.Op != token.NEQ) {
			continue
		}
		var other ssa.Value
		switch {
		case IsNilConst(bo.Y):
			other = bo.X
		case IsNilConst(bo.X):
			other = bo.Y
		default:
			continue
		}
		if is(other) {
			return true, (bo.Op == token.EQL) == val
		}
	}
	return false, false
}

// c12Rel normalises a fact to "a REL b is true" for the side selected by isA:
// returns the a-side value, the b-side value and REL.
func c12Relation(f CondFact, isA func(ssa.Value) bool) (a, b ssa.Value, rel token.Token, ok bool) {
	cond, val := c12StripNot(f.Cond, f.Val)
	bo, isBin := cond.(*ssa.BinOp)
	if !isBin {
		return nil, nil, 0, false
	}
	flip := map[token.Token]token.Token{token.LSS: token.GTR, token.GTR: token.LSS, token.LEQ: token.GEQ, token.GEQ: token.LEQ, token.EQL: token.EQL, token.NEQ: token.NEQ}
	neg := map[token.Token]token.Token{token.LSS: token.GEQ, token.GEQ: token.LSS, token.GTR: token.LEQ, token.LEQ: token.GTR, token.EQL: token.NEQ, token.NEQ: token.EQL}
	rel, known := bo.Op, false
	if _, known = flip[rel]; !known {
		return nil, nil, 0, false
	}
	switch {
	case isA(bo.X):
		a, b = bo.X, bo.Y
	case isA(bo.Y):
		a, b, rel = bo.Y, bo.X, flip[rel]
	default:
		return nil, nil, 0, false
	}
	if !val {
		rel = neg[rel]
	}
	return a, b, rel, true
}

// ---------------------------------------------------------------------------
// Effective body of an entry point
//
// The rules of this property are stated about the entry points of the
// replicated storage (the blobserver.Storage methods and the registered
// constructor). Where the code that does the work lives is not part of the
// property: it may sit in the entry point itself, in function literals, in
// unexported helpers of the package, in methods of a state object, or in bound
// method values handed to someone else. A c12Scope is the set of those
// functions reachable from one entry point together with the machinery that
// lets the rules reason across the calls: value resolution (a helper's
// parameter stands for the caller's argument, a pass-through result for the
// callee's returned value, a field of a once-built state object for the value
// stored there), facts (what is known at the call site is known in the helper;
// what a helper's boolean/error result implies about its arguments), ordering
// (precedes/succeeded across calls) and lock holding.

// c12Index is the package-wide call/creation index.
type c12Index struct {
	fns      []*ssa.Function // source functions, literals and the synthetic wrappers made in them
	callers  map[*ssa.Function][]CallSite
	makers   map[*ssa.Function][]*ssa.MakeClosure
	valueUse map[*ssa.Function][]ssa.Instruction
}

func (cx *c12Ctx) index() *c12Index {
	if cx.idx != nil {
		return cx.idx
	}
	ix := &c12Index{
		callers:  map[*ssa.Function][]CallSite{},
		makers:   map[*ssa.Function][]*ssa.MakeClosure{},
		valueUse: map[*ssa.Function][]ssa.Instruction{},
	}
	seen := map[*ssa.Function]bool{}
	var queue []*ssa.Function
	add := func(f *ssa.Function) {
		if f != nil && !seen[f] && f.Blocks != nil {
			seen[f] = true
			queue = append(queue, f)
		}
	}
	for _, f := range cx.p.FuncsIn(c12Rel) {
		add(f)
	}
	for i := 0; i < len(queue); i++ {
		f := queue[i]
		ix.fns = append(ix.fns, f)
		for _, a := range f.AnonFuncs {
			add(a)
		}
		for _, b := range f.Blocks {
			for _, in := range b.Instrs {
				var calleeVal ssa.Value
				switch x := in.(type) {
				case ssa.CallInstruction:
					c := CallSite{f, x}
					if g := c.Callee(); g != nil {
						ix.callers[g] = append(ix.callers[g], c)
					}
					if !x.Common().IsInvoke() {
						calleeVal = x.Common().Value
					}
				case *ssa.MakeClosure:
					if g, ok := x.Fn.(*ssa.Function); ok {
						ix.makers[g] = append(ix.makers[g], x)
						add(g)
					}
					calleeVal = x.Fn
				}
				for _, op := range in.Operands(nil) {
					if *op == nil || *op == calleeVal {
						continue
					}
					if fv, ok := (*op).(*ssa.Function); ok {
						ix.valueUse[fv] = append(ix.valueUse[fv], in)
					}
				}
			}
		}
	}
	cx.idx = ix
	return ix
}

// c12Enter is one way control can enter a function.
type c12Enter struct {
	site CallSite // the instruction that calls the function, or hands it to someone else (Instr nil: unknown)
	kind byte     // 'c' synchronous call, 'g' go, 'd' defer, 'v' handed over as a value (run later by someone else)
}

type c12Scope struct {
	cx  *c12Ctx
	ix  *c12Index
	top *ssa.Function
	fns []*ssa.Function
	in  map[*ssa.Function]bool
	ent map[*ssa.Function][]c12Enter

	fieldCache map[c12FieldKey]ssa.Value
	passCache  map[c12PassKey]ssa.Value
	busy       map[c12PassKey]bool
}

type c12FieldKey struct {
	base  ssa.Value
	field int
}

type c12PassKey struct {
	call *ssa.Call
	idx  int
}

const c12MaxDepth = 6

func (cx *c12Ctx) scope(top *ssa.Function) *c12Scope {
	if sc := cx.scopes[top]; sc != nil {
		return sc
	}
	sc := &c12Scope{cx: cx, ix: cx.index(), top: top, in: map[*ssa.Function]bool{}, ent: map[*ssa.Function][]c12Enter{},
		fieldCache: map[c12FieldKey]ssa.Value{}, passCache: map[c12PassKey]ssa.Value{}, busy: map[c12PassKey]bool{}}
	depth := map[*ssa.Function]int{top: 0}
	sc.in[top] = true
	sc.fns = []*ssa.Function{top}
	add := func(g *ssa.Function, d int) {
		if g == nil || g.Blocks == nil || sc.in[g] || d > c12MaxDepth {
			return
		}
		sc.in[g] = true
		depth[g] = d
		sc.fns = append(sc.fns, g)
	}
	for i := 0; i < len(sc.fns); i++ {
		f := sc.fns[i]
		d := depth[f] + 1
		for _, b := range f.Blocks {
			for _, in := range b.Instrs {
				switch x := in.(type) {
				case *ssa.MakeClosure:
					if g, ok := x.Fn.(*ssa.Function); ok {
						add(g, d)
					}
				case ssa.CallInstruction:
					if g := (CallSite{f, x}).Callee(); g != nil && sc.helper(g) {
						add(g, d)
					}
				}
			}
		}
	}
	if cx.scopes == nil {
		cx.scopes = map[*ssa.Function]*c12Scope{}
	}
	cx.scopes[top] = sc
	return sc
}

// helper: g is an unexported function or method of the entry point's package
// (or a function literal).
func (sc *c12Scope) helper(g *ssa.Function) bool {
	if g == nil || g.Blocks == nil {
		return false
	}
	if g.Parent() != nil {
		return true
	}
	if g.Synthetic != "" || g.Pkg == nil || g.Pkg != sc.top.Pkg {
		return false
	}
	return !token.IsExported(g.Name())
}

// enters lists every way control can enter g, program-wide for declared
// functions (callers inside and outside the scope, uses as a value, bound
// method values).
func (sc *c12Scope) enters(g *ssa.Function) []c12Enter {
	if e, ok := sc.ent[g]; ok {
		return e
	}
	var out []c12Enter
	for _, c := range sc.ix.callers[g] {
		k := byte('c')
		switch {
		case c.IsGo():
			k = 'g'
		case c.IsDefer():
			k = 'd'
		}
		out = append(out, c12Enter{c, k})
	}
	seen := map[ssa.Value]bool{}
	var uses func(v ssa.Value, owner *ssa.Function)
	uses = func(v ssa.Value, owner *ssa.Function) {
		if seen[v] || v.Referrers() == nil {
			return
		}
		seen[v] = true
		for _, r := range *v.Referrers() {
			switch r := r.(type) {
			case ssa.CallInstruction:
				if !r.Common().IsInvoke() && r.Common().Value == v {
					continue // a direct call: listed among the callers
				}
				if sites, ok := sc.calledThroughParam(r, v); ok {
					out = append(out, sites...) // handed to a helper that does nothing but call it
					continue
				}
				out = append(out, c12Enter{CallSite{r.Parent(), r}, 'v'})
			case *ssa.Store:
				if r.Val == v {
					if cell, ok := varOf(r.Addr); ok {
						if al, ok := cell.(*ssa.Alloc); ok && plainVariable(al) {
							followVar(al, func(ld *ssa.UnOp) { uses(ld, owner) })
							continue
						}
					}
					out = append(out, c12Enter{kind: 'v'})
				}
			case *ssa.DebugRef:
			case *ssa.ChangeType:
				uses(r, owner)
			case *ssa.MakeInterface:
				uses(r, owner)
			case *ssa.Phi:
				uses(r, owner)
			default:
				out = append(out, c12Enter{kind: 'v'})
			}
		}
	}
	for _, mc := range sc.ix.makers[g] {
		uses(mc, mc.Parent())
	}
	for _, in := range sc.ix.valueUse[g] {
		if ci, ok := in.(ssa.CallInstruction); ok {
			out = append(out, c12Enter{CallSite{in.Parent(), ci}, 'v'})
		} else {
			out = append(out, c12Enter{kind: 'v'})
		}
	}
	if g.Parent() == nil && g.Synthetic == "" && g.Signature.Recv() != nil && len(sc.cx.p.InvokeSites(g)) > 0 {
		out = append(out, c12Enter{kind: 'v'}) // reachable through an interface
	}
	sc.ent[g] = out
	return out
}

// calledThroughParam: call hands function value v to a helper of the package
// as an argument, and the helper only ever calls that parameter: the calls of
// the parameter are then the ways into v's function.
func (sc *c12Scope) calledThroughParam(call ssa.CallInstruction, v ssa.Value) ([]c12Enter, bool) {
	h := (CallSite{call.Parent(), call}).Callee()
	if h == nil || !sc.helper(h) || call.Common().IsInvoke() {
		return nil, false
	}
	var out []c12Enter
	n := 0
	for k, a := range call.Common().Args {
		if a != v {
			continue
		}
		n++
		if k >= len(h.Params) || h.Params[k].Referrers() == nil {
			return nil, false
		}
		for _, r := range *h.Params[k].Referrers() {
			switch r := r.(type) {
			case *ssa.DebugRef:
			case ssa.CallInstruction:
				if r.Common().IsInvoke() || r.Common().Value != ssa.Value(h.Params[k]) {
					return nil, false
				}
				kind := byte('c')
				switch r.(type) {
				case *ssa.Go:
					kind = 'g'
				case *ssa.Defer:
					kind = 'd'
				}
				out = append(out, c12Enter{CallSite{h, r}, kind})
			default:
				return nil, false
			}
		}
	}
	return out, n > 0 && len(out) > 0
}

// enter returns the only way into g when there is exactly one and it lies in
// the scope; nil otherwise.
func (sc *c12Scope) enter(g *ssa.Function) *c12Enter {
	if g == sc.top {
		return nil
	}
	var only *c12Enter
	for i, e := range sc.enters(g) {
		if e.site.Instr == nil {
			return nil // used in a way the analysis cannot place
		}
		if !sc.in[e.site.Fn] {
			continue // entered from code that is not part of this entry point's executions
		}
		if only != nil {
			return nil
		}
		only = &sc.enters(g)[i]
	}
	return only
}

// chain returns the entering sites that lead from the entry point to g
// (outermost first); ok=false when some function on the way is entered from
// several places or from outside the scope.
func (sc *c12Scope) chain(g *ssa.Function) (sites []c12Enter, ok bool) {
	for i := 0; g != sc.top; i++ {
		e := sc.enter(g)
		if e == nil || i > 2*c12MaxDepth {
			return nil, false
		}
		sites = append([]c12Enter{*e}, sites...)
		g = e.site.Fn
	}
	return sites, true
}

// under: g is root or is only ever entered from functions under root.
func (sc *c12Scope) under(g, root *ssa.Function) bool {
	for i := 0; i <= 2*c12MaxDepth; i++ {
		if g == root {
			return true
		}
		e := sc.enter(g)
		if e == nil {
			return false
		}
		g = e.site.Fn
	}
	return false
}

// oncePerCall: instruction in runs at most once per call of the entry point
// (it is not inside a loop, and neither is any call on the way to it).
func (sc *c12Scope) oncePerCall(in ssa.Instruction) bool {
	for i := 0; i <= 2*c12MaxDepth; i++ {
		if c12InnermostLoop(in.Block()) != nil {
			return false
		}
		if in.Parent() == sc.top {
			return true
		}
		e := sc.enter(in.Parent())
		if e == nil {
			return false
		}
		in = e.site.Instr
	}
	return false
}

// binding returns the value bound to free variable fv where its closure (a
// literal or a bound-method wrapper) is made.
func (sc *c12Scope) binding(fv *ssa.FreeVar) ssa.Value {
	fn := fv.Parent()
	idx := -1
	for i, f := range fn.FreeVars {
		if f == fv {
			idx = i
		}
	}
	var found ssa.Value
	for _, mc := range sc.ix.makers[fn] {
		if idx < 0 || idx >= len(mc.Bindings) {
			return nil
		}
		if found != nil && found != mc.Bindings[idx] {
			return nil
		}
		found = mc.Bindings[idx]
	}
	return found
}

// argOf returns the caller's argument a helper's parameter stands for.
func (sc *c12Scope) argOf(prm *ssa.Parameter) ssa.Value {
	fn := prm.Parent()
	e := sc.enter(fn)
	if e == nil || e.kind == 'v' {
		return nil
	}
	cc := e.site.Common()
	if cc.IsInvoke() {
		return nil
	}
	for k, q := range fn.Params {
		if q == prm && k < len(cc.Args) {
			return cc.Args[k]
		}
	}
	return nil
}

// res resolves v to the value it stands for in the effective body.
func (sc *c12Scope) res(v ssa.Value) ssa.Value { return sc.resF(v, 0, nil) }

func (sc *c12Scope) resN(v ssa.Value, depth int) ssa.Value { return sc.resF(v, depth, nil) }

// resAt is res at a place where facts are known: a helper's result stands for
// the value returned by those of its returns the facts do not rule out.
func (sc *c12Scope) resAt(v ssa.Value, facts []CondFact) ssa.Value { return sc.resF(v, 0, facts) }

func (sc *c12Scope) sameValAt(a, b ssa.Value, facts []CondFact) bool {
	if a == nil || b == nil {
		return false
	}
	return a == b || sc.resAt(a, facts) == sc.resAt(b, facts)
}

func (sc *c12Scope) resF(v ssa.Value, depth int, facts []CondFact) ssa.Value {
	if depth > 8 {
		return v
	}
	for i := 0; i < 40 && v != nil; i++ {
		v = originValue(v)
		switch x := v.(type) {
		case *ssa.Parameter:
			if a := sc.argOf(x); a != nil {
				v = a
				continue
			}
		case *ssa.FreeVar:
			if b := sc.binding(x); b != nil {
				v = b
				continue
			}
		case *ssa.UnOp:
			if x.Op == token.MUL {
				if r := sc.loadOf(x, depth); r != nil {
					v = r
					continue
				}
			}
		case *ssa.Field:
			// a field of a state object handed around by value
			if ld, ok := sc.resF(x.X, depth+1, facts).(*ssa.UnOp); ok && ld.Op == token.MUL {
				if al, ok := ld.X.(*ssa.Alloc); ok && !sc.cx.isObj(x.X.Type()) {
					if r := sc.fieldValue(al, x.X.Type(), x.Field, depth); r != nil {
						v = r
						continue
					}
				}
			}
		case *ssa.Extract:
			if c, ok := x.Tuple.(*ssa.Call); ok {
				if r := sc.passThrough(c, x.Index, depth, facts); r != nil {
					v = r
					continue
				}
			}
		case *ssa.Call:
			if x.Call.Signature().Results().Len() == 1 {
				if r := sc.passThrough(x, 0, depth, facts); r != nil {
					v = r
					continue
				}
			}
		}
		return v
	}
	return v
}

func (sc *c12Scope) sameVal(a, b ssa.Value) bool {
	if a == nil || b == nil {
		return false
	}
	return a == b || sc.res(a) == sc.res(b)
}

// calleeIn returns the scope function a call instruction calls, or nil.
func (sc *c12Scope) calleeIn(c ssa.CallInstruction) *ssa.Function {
	g := (CallSite{c.Parent(), c}).Callee()
	if g != nil && sc.in[g] {
		return g
	}
	return nil
}

// passThrough: result idx of the call is, on every return of the helper called,
// one and the same value.
func (sc *c12Scope) passThrough(c *ssa.Call, idx, depth int, facts []CondFact) ssa.Value {
	g := sc.calleeIn(c)
	if g == nil {
		return nil
	}
	k := c12PassKey{c, idx}
	if facts == nil {
		if r, ok := sc.passCache[k]; ok {
			return r
		}
	}
	if sc.busy[k] {
		return nil
	}
	sc.busy[k] = true
	defer delete(sc.busy, k)
	var val ssa.Value
	n := 0
	for _, ri := range Returns(g) {
		if idx >= len(ri.Results) {
			val = nil
			break
		}
		if facts != nil && c12Contradicted(c, ri.Results, ri.Ret.Block(), facts) {
			continue
		}
		var r ssa.Value
		if prm, ok := originValue(ri.Results[idx]).(*ssa.Parameter); ok && prm.Parent() == g && !c.Call.IsInvoke() {
			// the helper hands back one of its parameters: at this call, that is this call's argument
			for i, q := range g.Params {
				if q == prm && i < len(c.Call.Args) {
					r = sc.resN(c.Call.Args[i], depth+1)
				}
			}
		}
		if r == nil {
			r = sc.resN(ri.Results[idx], depth+1)
		}
		if n > 0 && r != val {
			val = nil
			break
		}
		val = r
		n++
	}
	if _, isConst := val.(*ssa.Const); isConst {
		val = nil // a constant result says nothing about identity
	}
	if facts == nil {
		sc.passCache[k] = val
	}
	return val
}

// loadOf resolves a load of a field of a state object (a struct built in the
// scope) to the only value ever stored in that field of that object.
func (sc *c12Scope) loadOf(ld *ssa.UnOp, depth int) ssa.Value {
	fa, ok := ld.X.(*ssa.FieldAddr)
	if !ok {
		return nil
	}
	if sc.cx.isObj(fa.X.Type()) {
		return nil // the storage object's own fields are the anchors: they stay symbolic
	}
	base, ok := sc.resN(fa.X, depth+1).(*ssa.Alloc)
	if !ok {
		return nil
	}
	return sc.fieldValue(base, fa.X.Type(), fa.Field, depth)
}

// fieldValue: the only value ever stored in field of the object base.
func (sc *c12Scope) fieldValue(base *ssa.Alloc, typ types.Type, field, depth int) ssa.Value {
	k := c12FieldKey{base, field}
	if r, ok := sc.fieldCache[k]; ok {
		return r
	}
	sc.fieldCache[k] = nil
	st := c12StructOf(typ)
	if st == nil {
		return nil
	}
	var val ssa.Value
	var whole *ssa.Store
	n := 0
	for _, f := range sc.ix.fns {
		for _, b := range f.Blocks {
			for _, in := range b.Instrs {
				s, ok := in.(*ssa.Store)
				if !ok {
					continue
				}
				switch a := s.Addr.(type) {
				case *ssa.FieldAddr:
					if a.Field != field || c12StructOf(a.X.Type()) == nil || !types.Identical(c12StructOf(a.X.Type()), st) {
						continue
					}
					switch o := sc.resN(a.X, depth+1).(type) {
					case *ssa.Alloc:
						if o == base {
							n++
							val = s.Val
						}
					default:
						n += 2 // a store through an object the analysis cannot identify
					}
				case *ssa.Alloc:
					if a == base && !c12ZeroStore(s) {
						n += 2 // the whole object is overwritten
						whole = s
					}
				}
			}
		}
	}
	if n == 2 && whole != nil && depth < 6 {
		// base is a copy of another object (`*base = *other`, a value receiver):
		// its field is the other object's field
		if ld, ok := sc.resN(whole.Val, depth+1).(*ssa.UnOp); ok && ld.Op == token.MUL {
			if al, ok := ld.X.(*ssa.Alloc); ok && al != base {
				val = sc.fieldValue(al, typ, field, depth+1)
				sc.fieldCache[k] = val
				return val
			}
		}
	}
	if n != 1 {
		return nil
	}
	sc.fieldCache[k] = val
	return val
}

// c12ZeroStore: the store writes a zero value literal (`*p = T{}` initialisation).
func c12ZeroStore(s *ssa.Store) bool {
	c, ok := s.Val.(*ssa.Const)
	return ok && c.Value == nil
}

func c12StructOf(t types.Type) *types.Struct {
	if pt, ok := t.Underlying().(*types.Pointer); ok {
		t = pt.Elem()
	}
	st, _ := t.Underlying().(*types.Struct)
	return st
}

// c12Cell identifies a memory cell across the functions of a scope: a variable
// or a field path of an object.
type c12Cell struct {
	root ssa.Value
	path string
}

func (sc *c12Scope) cell(addr ssa.Value) (c12Cell, bool) {
	path := ""
	for i := 0; i < 8; i++ {
		a := addr
		switch x := a.(type) {
		case *ssa.Parameter, *ssa.FreeVar, *ssa.UnOp, *ssa.Phi, *ssa.ChangeType:
			a = sc.res(x)
		}
		switch x := a.(type) {
		case *ssa.FieldAddr:
			path = fmt.Sprintf(".%d%s", x.Field, path)
			addr = x.X
			continue
		case *ssa.Alloc:
			return c12Cell{x, path}, true
		case *ssa.Global:
			return c12Cell{x, path}, true
		case *ssa.Parameter:
			return c12Cell{x, path}, true
		case *ssa.FreeVar:
			return c12Cell{x, path}, true
		}
		return c12Cell{}, false
	}
	return c12Cell{}, false
}

// dependsOn is DependsOn across the calls of the scope.
func (sc *c12Scope) dependsOn(v ssa.Value, target func(ssa.Value) bool) bool {
	seen := map[ssa.Value]bool{}
	var walk func(v ssa.Value, depth int) bool
	walk = func(v ssa.Value, depth int) bool {
		if v == nil || seen[v] || depth > 80 {
			return false
		}
		seen[v] = true
		if target(v) {
			return true
		}
		switch x := v.(type) {
		case *ssa.Parameter:
			if a := sc.argOf(x); a != nil {
				return walk(a, depth+1)
			}
			return false
		case *ssa.FreeVar:
			if b := sc.binding(x); b != nil {
				return walk(b, depth+1)
			}
			return false
		case *ssa.UnOp:
			if x.Op == token.MUL {
				if r := sc.loadOf(x, 0); r != nil && walk(r, depth+1) {
					return true
				}
				if cell, ok := varOf(x.X); ok {
					if cell != x.X && target(cell) {
						return true
					}
					for _, st := range storesTo(cell) {
						if walk(st.Val, depth+1) {
							return true
						}
					}
				}
			}
		case *ssa.Extract:
			if c, ok := x.Tuple.(*ssa.Call); ok {
				if g := sc.calleeIn(c); g != nil {
					for _, ri := range Returns(g) {
						if x.Index < len(ri.Results) && walk(ri.Results[x.Index], depth+1) {
							return true
						}
					}
				}
			}
		case *ssa.Call:
			if g := sc.calleeIn(x); g != nil && x.Call.Signature().Results().Len() == 1 {
				for _, ri := range Returns(g) {
					if len(ri.Results) == 1 && walk(ri.Results[0], depth+1) {
						return true
					}
				}
			}
		}
		if in, ok := v.(ssa.Instruction); ok {
			for _, op := range in.Operands(nil) {
				if *op != nil && walk(*op, depth+1) {
					return true
				}
			}
		}
		return false
	}
	return walk(v, 0)
}

// --- facts across calls

// factsAt: the branch conditions known at block b — those of b's own function,
// those known where b's function is entered (they are statements about
// immutable SSA values, so they still hold), and what the results of helper
// calls among them imply.
func (sc *c12Scope) factsAt(b *ssa.BasicBlock) []CondFact {
	return sc.closeFacts(sc.rawFactsAt(b, 0))
}

func (sc *c12Scope) edgeFacts(pred, succ *ssa.BasicBlock) []CondFact {
	out := c12EdgeFacts(pred, succ)
	if e := sc.enter(pred.Parent()); e != nil {
		out = append(out, sc.rawFactsAt(e.site.Block(), 1)...)
	}
	return sc.closeFacts(out)
}

func (sc *c12Scope) rawFactsAt(b *ssa.BasicBlock, depth int) []CondFact {
	out := FactsAt(b)
	if depth < 2*c12MaxDepth {
		if e := sc.enter(b.Parent()); e != nil {
			out = append(out, sc.rawFactsAt(e.site.Block(), depth+1)...)
		}
	}
	return out
}

// closeFacts adds, for every fact about the result of a call of a scope
// helper (`h(x)` true/false, `h(x) == nil`), the facts that hold on every
// return of h that can produce that result.
func (sc *c12Scope) closeFacts(facts []CondFact) []CondFact {
	seen := map[ssa.Value]bool{}
	for i := 0; i < len(facts) && i < 200; i++ {
		cond, val := c12StripNot(facts[i].Cond, facts[i].Val)
		var call *ssa.Call
		idx := 0
		want := byte(0)
		pick := func(v ssa.Value) bool {
			switch x := originValue(v).(type) {
			case *ssa.Call:
				if x.Call.Signature().Results().Len() == 1 {
					call, idx = x, 0
					return true
				}
			case *ssa.Extract:
				if c, ok := x.Tuple.(*ssa.Call); ok {
					call, idx = c, x.Index
					return true
				}
			}
			return false
		}
		if bo, ok := cond.(*ssa.BinOp); ok && (bo.Op == token.EQL || bo.Op == token.NEQ) {
			var other ssa.Value
			switch {
			case IsNilConst(bo.Y):
				other = bo.X
			case IsNilConst(bo.X):
				other = bo.Y
			}
			if other != nil && (bo.Op == token.EQL) == val && pick(other) {
				want = 'n'
			}
		} else if pick(cond) {
			want = 'f'
			if val {
				want = 't'
			}
		}
		if want == 0 || call == nil || seen[cond] {
			continue
		}
		seen[cond] = true
		g := sc.calleeIn(call)
		if g == nil {
			continue
		}
		facts = append(facts, sc.impliedBy(g, idx, want, 0)...)
	}
	return facts
}

// impliedBy: the facts (in g's own values) common to every return of g whose
// result idx may be nil ('n'), true ('t') or false ('f').
func (sc *c12Scope) impliedBy(g *ssa.Function, idx int, want byte, depth int) []CondFact {
	if depth > 3 {
		return nil
	}
	type leaf struct{ facts []CondFact }
	var leaves []leaf
	var expand func(v ssa.Value, at *ssa.BasicBlock, facts []CondFact, d int)
	expand = func(v ssa.Value, at *ssa.BasicBlock, facts []CondFact, d int) {
		if c, ok := v.(*ssa.Const); ok {
			switch want {
			case 'n':
				if c.Value != nil {
					return
				}
			case 't', 'f':
				if c.Value == nil || (c.Value.String() == "true") != (want == 't') {
					return
				}
			}
			leaves = append(leaves, leaf{facts})
			return
		}
		if want == 'n' {
			if isNonNilErrorExpr(v) {
				return
			}
			if k, isNil := c12NilFact(facts, func(o ssa.Value) bool { return c12SameRead(o, v) }); k && !isNil {
				return
			}
		}
		if ph, ok := v.(*ssa.Phi); ok && d < 6 {
			for i, e := range ph.Edges {
				pred := ph.Block().Preds[i]
				expand(e, pred, c12EdgeFacts(pred, ph.Block()), d+1)
			}
			return
		}
		fs := append([]CondFact(nil), facts...)
		switch want {
		case 't':
			fs = append(fs, CondFact{v, true, at})
		case 'f':
			fs = append(fs, CondFact{v, false, at})
		}
		// a result handed through from another helper
		switch x := originValue(v).(type) {
		case *ssa.Call:
			if h := sc.calleeIn(x); h != nil && x.Call.Signature().Results().Len() == 1 {
				fs = append(fs, sc.impliedBy(h, 0, want, depth+1)...)
			}
		case *ssa.Extract:
			if c, ok := x.Tuple.(*ssa.Call); ok {
				if h := sc.calleeIn(c); h != nil {
					fs = append(fs, sc.impliedBy(h, x.Index, want, depth+1)...)
				}
			}
		}
		leaves = append(leaves, leaf{fs})
	}
	for _, ri := range Returns(g) {
		if idx < len(ri.Results) {
			expand(ri.Results[idx], ri.Ret.Block(), FactsAt(ri.Ret.Block()), 0)
		}
	}
	if len(leaves) == 0 {
		return nil
	}
	type fk struct {
		c ssa.Value
		v bool
	}
	count := map[fk]int{}
	for _, l := range leaves {
		dup := map[fk]bool{}
		for _, f := range l.facts {
			k := fk{f.Cond, f.Val}
			if !dup[k] {
				dup[k] = true
				count[k]++
			}
		}
	}
	var out []CondFact
	for _, f := range leaves[0].facts {
		if count[fk{f.Cond, f.Val}] == len(leaves) {
			out = append(out, f)
			count[fk{f.Cond, f.Val}] = -1
		}
	}
	return out
}

// c12PhiLeaf is a non-phi value that reaches a merge point, with what is known
// on the way it comes in.
type c12PhiLeaf struct {
	val   ssa.Value
	facts []CondFact
}

// phiLeaves expands v through the phis that merge the arms of conditionals
// (a value defaulted in a local before it is used); facts are those at block at
// for a value that is not a phi.
func (sc *c12Scope) phiLeaves(v ssa.Value, at *ssa.BasicBlock) []c12PhiLeaf {
	var out []c12PhiLeaf
	seen := map[*ssa.Phi]bool{}
	var walk func(v ssa.Value, facts []CondFact, depth int)
	walk = func(v ssa.Value, facts []CondFact, depth int) {
		if ph, ok := v.(*ssa.Phi); ok && depth < 8 {
			if seen[ph] {
				return
			}
			seen[ph] = true
			for i, e := range ph.Edges {
				pred := ph.Block().Preds[i]
				walk(e, sc.edgeFacts(pred, ph.Block()), depth+1)
			}
			return
		}
		out = append(out, c12PhiLeaf{v, facts})
	}
	walk(v, sc.factsAt(at), 0)
	return out
}

// --- ordering across calls

// precedes: a has executed (and, where it sits in a helper that reports
// errors, that helper has reported none) on every path that reaches b.
func (sc *c12Scope) precedes(a, b ssa.Instruction) bool { return sc.precedesN(a, b, 0) }

func (sc *c12Scope) precedesN(a, b ssa.Instruction, depth int) bool {
	if depth > 2*c12MaxDepth {
		return false
	}
	if a.Parent() == b.Parent() {
		return Precedes(a, b)
	}
	// b sits in a helper: whatever precedes the way in precedes b
	if e := sc.enter(b.Parent()); e != nil && b.Parent() != sc.top {
		if e.site.Instr == a || sc.precedesN(a, e.site.Instr, depth+1) {
			return true
		}
	}
	// a sits in a helper that is called synchronously: a precedes every return
	// of the helper that is compatible with what is known at b about the
	// call's results, and the call precedes b
	if e := sc.enter(a.Parent()); e != nil && e.kind == 'c' && a.Parent() != sc.top {
		call := e.site.Value()
		if call == nil {
			return false
		}
		facts := sc.factsAt(b.Block())
		for _, ri := range Returns(a.Parent()) {
			if ssa.Instruction(ri.Ret) == a || Precedes(a, ri.Ret) || c12Contradicted(call, ri.Results, ri.Ret.Block(), facts) {
				continue
			}
			return false
		}
		return sc.precedesN(call, b, depth+1)
	}
	return false
}

// c12CallOf: v is result idx of call (looking through value-preserving wrappers).
func c12CallOf(v ssa.Value) (*ssa.Call, int) {
	switch x := originValue(v).(type) {
	case *ssa.Call:
		if x.Call.Signature().Results().Len() == 1 {
			return x, 0
		}
	case *ssa.Extract:
		if c, ok := x.Tuple.(*ssa.Call); ok {
			return c, x.Index
		}
	}
	return nil, 0
}

// c12Contradicted: a return of call's callee with the given results (at block
// at of the callee; nil when the results come from further down) cannot be the
// one taken, given facts known in the caller about the call's results: a
// boolean result known true/false against a constant, an error result known
// nil against a value that is never nil (and the reverse).
func c12Contradicted(call *ssa.Call, results []ssa.Value, at *ssa.BasicBlock, facts []CondFact) bool {
	nonNil := func(r ssa.Value) bool {
		if isNonNilErrorExpr(r) {
			return true
		}
		if at != nil {
			if c12KnownNonNil(at, r) {
				return true
			}
		}
		return false
	}
	for _, f := range facts {
		cond, val := c12StripNot(f.Cond, f.Val)
		if c, j := c12CallOf(cond); c == call && j < len(results) {
			if k, ok := results[j].(*ssa.Const); ok && k.Value != nil && (k.Value.String() == "true") != val {
				return true
			}
		}
		bo, ok := cond.(*ssa.BinOp)
		if !ok || (bo.Op != token.EQL && bo.Op != token.NEQ) {
			continue
		}
		var other ssa.Value
		switch {
		case IsNilConst(bo.Y):
			other = bo.X
		case IsNilConst(bo.X):
			other = bo.Y
		}
		if other == nil {
			continue
		}
		if c, j := c12CallOf(other); c == call && j < len(results) {
			isNil := (bo.Op == token.EQL) == val
			r := results[j]
			if IsNilConst(r) && !isNil {
				return true
			}
			if isNil && nonNil(r) {
				return true
			}
		}
	}
	return false
}

// succeededBefore: call c has returned without error on every path to site.
func (sc *c12Scope) succeededBefore(c *ssa.Call, site ssa.Instruction) bool {
	return sc.succeededN(c, site, 0)
}

func (sc *c12Scope) succeededN(c *ssa.Call, site ssa.Instruction, depth int) bool {
	ev, hasErr, discarded := ErrValue(c)
	if !hasErr {
		return sc.precedes(c, site)
	}
	if discarded {
		return false
	}
	if sc.precedes(c, site) {
		if k, isNil := c12NilFact(sc.factsAt(site.Block()), func(o ssa.Value) bool { return sc.sameVal(o, ev) }); k && isNil {
			return true
		}
	}
	// c sits in a helper called synchronously: every return of the helper that
	// may report success lies on c's err==nil edge (or hands back c's own
	// error), and the helper's call has succeeded before site
	g := c.Parent()
	if g == sc.top || depth > 2*c12MaxDepth {
		return false
	}
	e := sc.enter(g)
	if e == nil || e.kind != 'c' || e.site.Value() == nil {
		return false
	}
	errIdx := ErrResultIndex(g)
	for _, ri := range Returns(g) {
		if errIdx >= 0 {
			v := ri.Results[errIdx]
			if isNonNilErrorExpr(v) || c12KnownNonNil(ri.Ret.Block(), v) {
				continue
			}
			if sameOriginStrict(v, ev) {
				continue
			}
		}
		if s, _ := SuccessDominates(c, ri.Ret); !s {
			return false
		}
	}
	if errIdx >= 0 {
		return sc.succeededN(e.site.Value(), site, depth+1)
	}
	return sc.precedes(e.site.Value(), site)
}

// --- lock holding across calls

func c12MutexOp(c CallSite) (kind string, addr ssa.Value, ok bool) {
	for _, m := range []string{"Lock", "Unlock", "RLock", "RUnlock"} {
		if c.IsStatic("sync", "Mutex", m) || c.IsStatic("sync", "RWMutex", m) {
			return m, c.Args()[0], true
		}
	}
	return "", nil, false
}

// holds: the mutex in cell lock is write-held on every path to at, counting
// from the entry of root (entered without the lock). A helper is entered with
// the lock held when its only caller holds it at the call.
func (sc *c12Scope) holds(at ssa.Instruction, lock c12Cell, root *ssa.Function, depth int) bool {
	fn := at.Parent()
	entry := false
	if fn != root && depth < 2*c12MaxDepth {
		if e := sc.enter(fn); e != nil && e.kind == 'c' {
			entry = sc.holds(e.site.Instr, lock, root, depth+1)
		}
	}
	held, found, _ := sc.lockFlow(fn, lock, entry, at, 0)
	return found && held
}

// lockFlow runs the must-hold analysis of one mutex through fn entered with
// state entry: atState is the state before instruction at (found when it was
// reached), exit the state after fn has returned (deferred unlocks applied).
// Calls of helpers of the scope are followed.
func (sc *c12Scope) lockFlow(fn *ssa.Function, lock c12Cell, entry bool, at ssa.Instruction, depth int) (atState, found, exit bool) {
	if len(fn.Blocks) == 0 || depth > c12MaxDepth {
		return false, false, false
	}
	isOp := func(c CallSite) (string, bool) {
		if k, addr, ok := c12MutexOp(c); ok {
			if cl, ok := sc.cell(addr); ok && cl == lock {
				return k, true
			}
		}
		return "", false
	}
	in := map[*ssa.BasicBlock]bool{}
	known := map[*ssa.BasicBlock]bool{}
	in[fn.Blocks[0]], known[fn.Blocks[0]] = entry, true
	exit = true
	deferredUnlock := false
	transfer := func(b *ssa.BasicBlock, record bool) bool {
		cur := in[b]
		for _, ins := range b.Instrs {
			if record && ins == at {
				atState, found = cur, true
			}
			if record {
				if _, ok := ins.(*ssa.Return); ok && !cur {
					exit = false
				}
			}
			ci, ok := ins.(ssa.CallInstruction)
			if !ok {
				continue
			}
			c := CallSite{fn, ci}
			if c.IsGo() {
				continue
			}
			if c.IsDefer() {
				if k, ok := isOp(c); ok && k == "Unlock" {
					deferredUnlock = true
				} else if g := sc.calleeIn(ci); g != nil {
					// a deferred helper/literal that may unlock
					if _, _, out := sc.lockFlow(g, lock, true, nil, depth+1); !out {
						deferredUnlock = true
					}
				}
				continue
			}
			if k, ok := isOp(c); ok {
				switch k {
				case "Lock":
					cur = true
				case "Unlock":
					cur = false
				}
				continue
			}
			if g := sc.calleeIn(ci); g != nil {
				_, _, cur = sc.lockFlow(g, lock, cur, nil, depth+1)
			}
		}
		return cur
	}
	for changed, n := true, 0; changed && n < 64; n++ {
		changed = false
		for _, b := range fn.Blocks {
			if !known[b] {
				continue
			}
			o := transfer(b, false)
			for _, s := range b.Succs {
				if !known[s] {
					known[s], in[s], changed = true, o, true
				} else if in[s] && !o {
					in[s], changed = false, true
				}
			}
		}
	}
	for _, b := range fn.Blocks {
		if known[b] {
			transfer(b, true)
		}
	}
	if deferredUnlock {
		exit = false
	}
	return atState, found, exit
}

// heldFromTo: the mutex in cell lock is not released on any path from a to b
// (a and b in one function, or one of them in a helper called synchronously on
// the way).
func (sc *c12Scope) heldFromTo(a, b ssa.Instruction, lock c12Cell, depth int) bool {
	if depth > 2*c12MaxDepth {
		return false
	}
	var releases func(in ssa.Instruction, d int) bool
	releases = func(in ssa.Instruction, d int) bool {
		ci, ok := in.(ssa.CallInstruction)
		if !ok {
			return false
		}
		c := CallSite{in.Parent(), ci}
		if c.IsDefer() || c.IsGo() {
			return false
		}
		if k, addr, ok := c12MutexOp(c); ok {
			cl, ok := sc.cell(addr)
			return k == "Unlock" && ok && cl == lock
		}
		if g := sc.calleeIn(ci); g != nil && d < c12MaxDepth {
			for _, b := range g.Blocks {
				for _, x := range b.Instrs {
					if releases(x, d+1) {
						return true
					}
				}
			}
		}
		return false
	}
	clean := func(set map[ssa.Instruction]bool) bool {
		for in := range set {
			if releases(in, 0) {
				return false
			}
		}
		return true
	}
	// between: the instructions on some path from x to y (one function)
	between := func(x, y ssa.Instruction) map[ssa.Instruction]bool {
		out := map[ssa.Instruction]bool{}
		toY := map[*ssa.BasicBlock]bool{}
		var back func(b *ssa.BasicBlock)
		back = func(b *ssa.BasicBlock) {
			for _, p := range b.Preds {
				if !toY[p] {
					toY[p] = true
					back(p)
				}
			}
		}
		back(y.Block())
		for in := range ReachableFrom(x, func(in ssa.Instruction) bool { return in == y }) {
			if toY[in.Block()] || in.Block() == y.Block() && instrIndex(in) < instrIndex(y) {
				out[in] = true
			}
		}
		return out
	}
	if a.Parent() == b.Parent() {
		return clean(between(a, b))
	}
	if sc.under(a.Parent(), b.Parent()) {
		// a sits in a helper called on the way to b: nothing after a in the helper releases
		e := sc.enter(a.Parent())
		if e == nil || e.kind != 'c' {
			return false
		}
		return clean(ReachableFrom(a, nil)) && sc.heldFromTo(e.site.Instr, b, lock, depth+1)
	}
	if sc.under(b.Parent(), a.Parent()) {
		// b sits in a helper called after a: nothing from the helper's entry to b releases
		e := sc.enter(b.Parent())
		if e == nil || e.kind != 'c' {
			return false
		}
		first := b.Parent().Blocks[0].Instrs[0]
		if first != b {
			if releases(first, 0) || !clean(between(first, b)) {
				return false
			}
		}
		return sc.heldFromTo(a, e.site.Instr, lock, depth+1)
	}
	// siblings: lift a
	e := sc.enter(a.Parent())
	if e == nil || e.kind != 'c' {
		return false
	}
	return clean(ReachableFrom(a, nil)) && sc.heldFromTo(e.site.Instr, b, lock, depth+1)
}

// ---------------------------------------------------------------------------
// Reads of a received message

// c12Msg describes the value received from the result channel in one iteration.
type c12Msg struct {
	sc   *c12Scope
	recv *ssa.UnOp // <-ch
}

// field reports which field of the message v reads (-1: the whole message),
// resolving `res := <-ch; ... res.f` through the local variable provided no
// store to that field (or to the whole variable) lies between, and through a
// helper's parameter to which the message is handed.
func (m *c12Msg) field(v ssa.Value) (int, bool) { return m.fieldN(v, 0) }

func (m *c12Msg) fieldN(v ssa.Value, depth int) (int, bool) {
	if depth > 10 {
		return 0, false
	}
	if v == ssa.Value(m.recv) {
		return -1, true
	}
	switch x := v.(type) {
	case *ssa.Field:
		if f, ok := m.fieldN(x.X, depth+1); ok && f == -1 {
			return x.Field, true
		}
	case *ssa.Parameter:
		if a := m.sc.argOf(x); a != nil {
			return m.fieldN(a, depth+1)
		}
	case *ssa.UnOp:
		if x.Op != token.MUL {
			return 0, false
		}
		ad, top := x.X, -1
		for {
			fa, ok := ad.(*ssa.FieldAddr)
			if !ok {
				break
			}
			top, ad = fa.Field, fa.X
		}
		if al, ok := ad.(*ssa.Alloc); ok && m.cleanSince(al, top, x, depth) {
			return top, true
		}
	}
	return 0, false
}

// cleanSince: local variable al holds the received message at load (the store
// of the received value precedes the load and no later store to the field /
// whole variable can reach the load), and al's address does not escape.
func (m *c12Msg) cleanSince(al *ssa.Alloc, field int, load ssa.Instruction, depth int) bool {
	var s0 *ssa.Store
	var others []*ssa.Store
	escapes := false
	var scan func(addr ssa.Value, fld int)
	scan = func(addr ssa.Value, fld int) {
		refs := addr.Referrers()
		if refs == nil {
			return
		}
		for _, r := range *refs {
			switch r := r.(type) {
			case *ssa.Store:
				if r.Addr != addr {
					escapes = true
					continue
				}
				whole := false
				if fld == -1 && Precedes(r, load) {
					if f, ok := m.fieldN(r.Val, depth+1); ok && f == -1 {
						whole = true
					}
				}
				if whole {
					s0 = r
				} else if fld == -1 || field == -1 || fld == field {
					others = append(others, r)
				}
			case *ssa.FieldAddr:
				if fld == -1 {
					scan(r, r.Field)
				} else {
					scan(r, fld)
				}
			case *ssa.UnOp:
				if r.Op != token.MUL {
					escapes = true
				}
			case *ssa.DebugRef:
			default:
				escapes = true
			}
		}
	}
	scan(al, -1)
	if escapes || s0 == nil {
		return false
	}
	isS0 := func(in ssa.Instruction) bool { return in == ssa.Instruction(s0) }
	after := ReachableFrom(s0, isS0)
	for _, st := range others {
		if after[st] && ReachableFrom(st, isS0)[load] {
			return false
		}
	}
	return true
}

func c12Site(p *Program, in ssa.Instruction) string {
	if in == nil {
		return "?"
	}
	if in.Pos().IsValid() {
		return p.Pos(in.Pos())
	}
	if c, ok := in.(ssa.CallInstruction); ok {
		return p.Pos(c.Common().Pos())
	}
	return p.Pos(in.Parent().Pos())
}

// ---------------------------------------------------------------------------
// Fan-out / collect protocol shared by ReceiveBlob, RemoveBlobs and StatBlobs

type c12Fan struct {
	sc     *c12Scope
	top    *ssa.Function
	op     CallSite      // the per-replica operation
	chain  []c12Enter    // the entering sites leading from top to op's function
	loopFn *ssa.Function // function holding the loop over the replica slice
	spawn  CallSite      // instruction of loopFn that leads to op (== op when op sits in loopFn)
	below  []CallSite    // the sites after spawn on the way to op, ending with op (empty when spawn == op)
	elem   *ssa.UnOp     // load of &slice[idx]: the replica the operation acts on
	loop   *c12Loop      // loop around spawn
	// channel protocol (nil ch: none found)
	worker   *ssa.Function // function that reports the operation's result on the channel
	ch       *ssa.MakeChan
	sends    []*ssa.Send
	errField int // message field carrying op's error (-1: the message is the error)
	sbField  int // message field carrying op's result 0 (-2: none)
	msg      *c12Msg
	recvLoop *c12Loop
}

// onWay: f is one of the functions from loopFn down to op's function.
func (fan *c12Fan) onWay(f *ssa.Function) bool {
	if f == fan.spawn.Fn {
		return true
	}
	for _, c := range fan.below {
		if c.Fn == f {
			return true
		}
	}
	return false
}

// elemOrigin follows v back to a load of &slice[idx], through captured
// per-iteration variables, type assertions, parameters and state objects.
func (sc *c12Scope) elemOrigin(v ssa.Value) *ssa.UnOp {
	for i := 0; i < 8; i++ {
		v = sc.res(v)
		switch x := v.(type) {
		case *ssa.Extract:
			if ta, ok := x.Tuple.(*ssa.TypeAssert); ok && x.Index == 0 {
				v = ta.X
				continue
			}
		case *ssa.TypeAssert:
			v = x.X
			continue
		case *ssa.UnOp:
			if x.Op == token.MUL {
				if _, ok := x.X.(*ssa.IndexAddr); ok {
					return x
				}
			}
		}
		return nil
	}
	return nil
}

// c12FindFan resolves the operation, the way to it from the entry point and
// the element it acts on. problem != "" when the shape is not understood.
func c12FindFan(sc *c12Scope, isOp func(CallSite) bool, dstOf func(CallSite) ssa.Value) (fan *c12Fan, problem string, missing bool) {
	var ops []CallSite
	for _, f := range sc.fns {
		for _, c := range CallsIn(f, false) {
			if isOp(c) {
				ops = append(ops, c)
			}
		}
	}
	if len(ops) == 0 {
		return nil, "no per-replica operation call found", true
	}
	if len(ops) > 1 {
		return nil, fmt.Sprintf("%d per-replica operation calls found; the analysis expects one", len(ops)), false
	}
	fan = &c12Fan{sc: sc, top: sc.top, op: ops[0], errField: -1, sbField: -2}
	fan.spawn, fan.loopFn, fan.worker = fan.op, fan.op.Fn, fan.op.Fn
	chain, ok := sc.chain(fan.op.Fn)
	if !ok {
		return fan, "the function performing the per-replica operation is entered from several places, or from outside the entry point's effective body", false
	}
	fan.chain = chain
	fan.elem = sc.elemOrigin(dstOf(fan.op))
	if fan.elem != nil {
		// the loop sits where the element's index comes from (the element itself
		// may be picked further down, from an index handed to a helper)
		fan.loopFn = fan.elem.Parent()
		if in, ok := sc.res(fan.elem.X.(*ssa.IndexAddr).Index).(ssa.Instruction); ok && sc.in[in.Parent()] {
			fan.loopFn = in.Parent()
		}
		found := fan.loopFn == fan.op.Fn
		for i, e := range chain {
			if e.site.Fn == fan.loopFn {
				fan.spawn, found = e.site, true
				for _, e2 := range chain[i+1:] {
					fan.below = append(fan.below, e2.site)
				}
				fan.below = append(fan.below, fan.op)
				break
			}
		}
		if !found {
			fan.elem, fan.loopFn = nil, fan.op.Fn
		}
	} else if len(chain) > 0 {
		fan.spawn, fan.loopFn = chain[0].site, sc.top
	}
	fan.loop = c12InnermostLoop(fan.spawn.Block())
	return fan, "", false
}

// c12MustPass returns the exits of fn reachable from its entry without passing
// an instruction satisfying stop.
func c12MustPass(fn *ssa.Function, stop func(ssa.Instruction) bool, assume func(ssa.Value) (bool, bool)) []Leak {
	first := fn.Blocks[0].Instrs[0]
	if stop(first) {
		return nil
	}
	return LeakingExits(PathQuery{Start: first, Stop: stop, Assume: assume, IgnorePanics: true})
}

// checkFanOut: the operation is started exactly once per element of obj.field,
// acting on that element.
func (cx *c12Ctx) checkFanOut(fan *c12Fan, field int, skipOK bool) (ok bool, undecided bool, detail string) {
	sc := fan.sc
	fname := cx.fieldName(field)
	if fan.elem == nil {
		return false, false, "the replica the operation acts on is not an element `" + fname + "[i]` of the replica slice (followed through captures, parameters, helpers and type assertions)"
	}
	ia := fan.elem.X.(*ssa.IndexAddr)
	if !sc.isFieldLoad(ia.X, field) {
		return false, false, "the operation acts on an element of a slice other than sto." + fname
	}
	l := fan.loop
	if l == nil {
		return false, false, "the operation is not inside a loop over sto." + fname
	}
	if l.Idx == nil {
		return false, true, "enclosing loop does not have the shape `idx < bound`; cannot count its iterations"
	}
	if !l.FromZeroStep1 {
		return false, false, "the loop around the operation does not start at index 0 / step by 1: some replica is skipped"
	}
	if !sc.lenOfField(l.Bound, field) {
		return false, false, "the loop around the operation is not bounded by len(sto." + fname + ")"
	}
	if ia.Index != l.Idx && sc.res(ia.Index) != l.Idx {
		return false, false, "the operation does not act on the element at the loop's current index"
	}
	// a failed type assertion on the element may skip it (it lacks the interface)
	isAssertOK := func(cond ssa.Value) bool {
		ex, ok := cond.(*ssa.Extract)
		if !ok || ex.Index != 1 {
			return false
		}
		ta, ok := ex.Tuple.(*ssa.TypeAssert)
		return ok && sc.elemOrigin(ta.X) == fan.elem
	}
	var allowSkip func(b *ssa.BasicBlock) bool
	var assume func(ssa.Value) (bool, bool)
	if skipOK {
		allowSkip = func(b *ssa.BasicBlock) bool {
			ifi, ok := b.Instrs[len(b.Instrs)-1].(*ssa.If)
			return ok && isAssertOK(ifi.Cond)
		}
		assume = func(cond ssa.Value) (bool, bool) {
			if isAssertOK(cond) {
				return true, true
			}
			return false, false
		}
	}
	if c12SkipPath(l, fan.spawn.Block(), allowSkip) {
		return false, false, "some iteration reaches the next one without starting the operation for its replica"
	}
	// below the loop: every path through each helper on the way reaches the next call
	for _, next := range fan.below {
		stop := func(in ssa.Instruction) bool { return in == ssa.Instruction(next.Instr) }
		if leaks := c12MustPass(next.Fn, stop, assume); len(leaks) > 0 {
			return false, false, fmt.Sprintf("%s can return (line %d) without performing the operation for the replica it was started for", FuncKey(next.Fn), cx.p.SSA.Fset.Position(leaks[0].Exit.Pos()).Line)
		}
	}
	return true, false, fmt.Sprintf("started once per iteration of a loop idx=0..len(sto.%s)-1 on sto.%s[idx]", fname, fname)
}

// resolveChannel finds the result channel the worker reports on, the layout of
// the message and the collector's receive.
func (fan *c12Fan) resolveChannel() (problem string, undecided bool) {
	sc := fan.sc
	opCall := fan.op.Value()
	if opCall == nil {
		return "per-replica operation is started with go/defer; its result is lost", false
	}
	opErr, hasErr, _ := ErrValue(opCall)
	if !hasErr {
		return "per-replica operation has no error result", false
	}
	chanOf := func(v ssa.Value) *ssa.MakeChan {
		mc, _ := sc.res(v).(*ssa.MakeChan)
		if mc != nil && sc.in[mc.Parent()] {
			return mc
		}
		return nil
	}
	// the way from the loop down to the operation, lowest function first
	way := []*ssa.Function{fan.op.Fn}
	for i := len(fan.below) - 1; i >= 0; i-- {
		if f := fan.below[i].Fn; f != way[len(way)-1] {
			way = append(way, f)
		}
	}
	topOfWay := way[len(way)-1]
	// the sends performed on the way (in those functions or in helpers only they call)
	sendFns := map[*ssa.Function]bool{}
	for _, f := range sc.fns {
		if !sc.under(f, topOfWay) {
			continue
		}
		for _, b := range f.Blocks {
			for _, in := range b.Instrs {
				if s, ok := in.(*ssa.Send); ok {
					if mc := chanOf(s.Chan); mc != nil {
						if fan.ch != nil && fan.ch != mc {
							return "worker sends on more than one channel", true
						}
						fan.ch = mc
						fan.sends = append(fan.sends, s)
						sendFns[f] = true
					}
				}
			}
		}
	}
	fan.worker = fan.op.Fn
	if fan.ch == nil {
		return "the per-replica operation's result is not sent on a channel made in the effective body of " + fan.top.Name(), false
	}
	// the reporting worker: the lowest function on the way all sends happen under
	for _, w := range way {
		all := true
		for f := range sendFns {
			if !sc.under(f, w) {
				all = false
			}
		}
		fan.worker = w
		if all {
			break
		}
	}
	var recvs []*ssa.UnOp
	for _, f := range sc.fns {
		for _, b := range f.Blocks {
			for _, in := range b.Instrs {
				switch x := in.(type) {
				case *ssa.Send:
					if !sc.under(f, fan.worker) && chanOf(x.Chan) == fan.ch {
						return "the result channel has a sender outside the per-replica worker", false
					}
				case *ssa.UnOp:
					if x.Op == token.ARROW && chanOf(x.X) == fan.ch {
						recvs = append(recvs, x)
					}
				case *ssa.Select:
					for _, st := range x.States {
						if chanOf(st.Chan) == fan.ch {
							return "the result channel is used in a select; not followed", true
						}
					}
				}
			}
		}
	}
	if len(recvs) != 1 || recvs[0].CommaOk {
		return fmt.Sprintf("expected exactly one plain receive from the result channel in the effective body of %s, found %d", fan.top.Name(), len(recvs)), true
	}
	if _, ok := sc.chain(recvs[0].Parent()); !ok {
		return "the function receiving from the result channel is entered from several places", true
	}
	fan.msg = &c12Msg{sc: sc, recv: recvs[0]}
	fan.recvLoop = c12InnermostLoop(recvs[0].Block())
	// message layout, from the first send; all sends must agree
	rv := ResultValue(opCall, 0)
	for i, s := range fan.sends {
		ef, sf := -2, -2
		if sc.sameVal(s.X, opErr) || sameOrigin(s.X, opErr) {
			ef = -1
		} else if ld, ok := sc.res(s.X).(*ssa.UnOp); ok && ld.Op == token.MUL {
			if al, ok := ld.X.(*ssa.Alloc); ok && al.Referrers() != nil {
				for _, r := range *al.Referrers() {
					fa, ok := r.(*ssa.FieldAddr)
					if !ok || fa.Referrers() == nil {
						continue
					}
					for _, rr := range *fa.Referrers() {
						if st, ok := rr.(*ssa.Store); ok && st.Addr == ssa.Value(fa) {
							if sc.sameVal(st.Val, opErr) || sameOrigin(st.Val, opErr) {
								ef = fa.Field
							} else if rv != nil && rv != opErr && (sc.sameVal(st.Val, rv) || sameOrigin(st.Val, rv)) {
								sf = fa.Field
							}
						}
					}
				}
			}
		}
		if ef == -2 {
			return "a message sent by the worker does not carry the error of the per-replica operation", false
		}
		if i > 0 && (ef != fan.errField || sf != fan.sbField) {
			return "the worker's sends disagree on where the operation's results are put", false
		}
		fan.errField, fan.sbField = ef, sf
	}
	return "", false
}

// sendCount: the least and the greatest number of messages (capped at 2) f
// sends on the result channel on a path from its entry to a return, counting
// the sends of the helpers it calls; ok=false when that cannot be told.
func (fan *c12Fan) sendCount(f *ssa.Function, depth int) (lo, hi int, ok bool) {
	sc := fan.sc
	if depth > c12MaxDepth || len(f.Blocks) == 0 {
		return 0, 0, false
	}
	ok = true
	weight := func(in ssa.Instruction) int {
		switch x := in.(type) {
		case *ssa.Send:
			if sc.res(x.Chan) == ssa.Value(fan.ch) {
				return 1
			}
		case ssa.CallInstruction:
			if g := sc.calleeIn(x); g != nil {
				l, h, k := fan.sendCount(g, depth+1)
				if !k || l != h {
					ok = false
					return 0
				}
				return l
			}
		}
		return 0
	}
	lo, hi = 3, -1
	type state struct {
		b *ssa.BasicBlock
		n int
	}
	seen := map[state]bool{}
	var walk func(b *ssa.BasicBlock, n int)
	walk = func(b *ssa.BasicBlock, n int) {
		if seen[state{b, n}] {
			return
		}
		seen[state{b, n}] = true
		for _, in := range b.Instrs {
			n += weight(in)
			if n > 2 {
				n = 2
			}
			switch in.(type) {
			case *ssa.Return:
				if n < lo {
					lo = n
				}
				if n > hi {
					hi = n
				}
				return
			case *ssa.Panic:
				return
			}
		}
		for _, s := range b.Succs {
			walk(s, n)
		}
	}
	walk(f.Blocks[0], 0)
	if hi < 0 {
		return 0, 0, false // never returns
	}
	return lo, hi, ok
}

// checkReportsOnce: every path through the worker sends exactly one message.
func (fan *c12Fan) checkReportsOnce() (good bool, detail string) {
	lo, hi, ok := fan.sendCount(fan.worker, 0)
	switch {
	case !ok:
		return false, "cannot count the messages the worker sends (a helper it calls sends on some paths only)"
	case lo == 0:
		return false, "the worker can return without reporting: the collector waits for an answer that never comes"
	case hi > 1:
		return false, "a worker path reports twice: one replica would be counted as two"
	}
	// the worker itself runs once per started operation
	for _, c := range fan.below {
		if c.Fn == fan.worker {
			break
		}
		if c12InnermostLoop(c.Block()) != nil {
			return false, "the reporting worker is started in a loop of its own: one replica would answer several times"
		}
	}
	return true, "every worker path sends exactly one message carrying the operation's own error"
}

// checkCollectCount: the receive runs once per element of obj.field.
func (cx *c12Ctx) checkCollectCount(fan *c12Fan, field int) (ok, undecided bool, detail string) {
	fname := cx.fieldName(field)
	l := fan.recvLoop
	if l == nil {
		return false, false, "the collector receives outside any loop: only one replica's answer is looked at"
	}
	if l.Idx == nil {
		return false, true, "collector loop does not have the shape `idx < bound`; cannot count its iterations"
	}
	if !l.FromZeroStep1 || !fan.sc.lenOfField(l.Bound, field) {
		return false, false, "the collector loop does not run exactly len(sto." + fname + ") times, the number of workers started"
	}
	if c12SkipPath(l, fan.msg.recv.Block(), nil) {
		return false, false, "some collector iteration does not receive an answer"
	}
	return true, false, "one receive per iteration of a loop running len(sto." + fname + ") times, as many as workers started"
}

// fieldLoad: v stands for a load of a field of the storage object.
func (sc *c12Scope) fieldLoad(v ssa.Value) (int, bool) {
	switch x := sc.res(v).(type) {
	case *ssa.UnOp:
		if x.Op == token.MUL {
			return sc.cx.fieldAddr(x.X)
		}
	case *ssa.Field:
		if sc.cx.isObj(x.X.Type()) {
			return x.Field, true
		}
	}
	return 0, false
}

func (sc *c12Scope) isFieldLoad(v ssa.Value, f int) bool {
	g, ok := sc.fieldLoad(v)
	return ok && g == f
}

// lenArg returns x when v stands for the builtin call len(x).
func (sc *c12Scope) lenArg(v ssa.Value) (ssa.Value, bool) {
	call, ok := sc.res(v).(*ssa.Call)
	if !ok {
		return nil, false
	}
	if b, ok := call.Call.Value.(*ssa.Builtin); ok && b.Name() == "len" && len(call.Call.Args) == 1 {
		return call.Call.Args[0], true
	}
	return nil, false
}

func (sc *c12Scope) lenOfField(v ssa.Value, f int) bool {
	arg, ok := sc.lenArg(v)
	return ok && sc.isFieldLoad(arg, f)
}

// ---------------------------------------------------------------------------
// Success counter, guard and fall-through error

type c12Counter struct {
	phi  *ssa.Phi     // the loop-header phi carrying the count
	incs []*ssa.BinOp // the `phi + 1` values that flow back into it
}

// c12NetLeaf is a non-phi value flowing into a loop-carried phi network along
// the CFG edge leaving block From.
type c12NetLeaf struct {
	Val  ssa.Value
	From *ssa.BasicBlock
}

// c12NetLeaves expands root (a loop-header phi) through the phis of the loop
// that merge the values of the loop's arms (continue edges, latch of a rotated
// loop) down to the non-phi values, and the root itself where an arm leaves it
// unchanged.
func c12NetLeaves(root *ssa.Phi) []c12NetLeaf {
	h := root.Block()
	var out []c12NetLeaf
	seen := map[*ssa.Phi]bool{}
	var expand func(phi *ssa.Phi)
	expand = func(phi *ssa.Phi) {
		seen[phi] = true
		for i, e := range phi.Edges {
			from := phi.Block().Preds[i]
			if p2, ok := e.(*ssa.Phi); ok && p2 != root && c12InLoop(h, p2.Block()) {
				if !seen[p2] {
					expand(p2)
				}
				continue
			}
			out = append(out, c12NetLeaf{e, from})
		}
	}
	expand(root)
	return out
}

// c12LoopHeaderPhi: phi sits at the header of a loop and takes a value from inside it.
func c12LoopHeaderPhi(phi *ssa.Phi) bool {
	h := phi.Block()
	for _, pr := range h.Preds {
		if h.Dominates(pr) && c12InLoop(h, pr) {
			return true
		}
	}
	return false
}

// c12CounterOf interprets v (the value compared with the threshold) as a
// loop-carried counter: a header phi whose network leaves are only `0` from
// outside the loop, the phi itself, and phi+1 — or its freshly incremented
// value, or the value the counter has after the loop (a phi merging the
// loop's exits, go/ssa's form for rotated loops).
func c12CounterOf(v ssa.Value) (*c12Counter, bool /*v is a fresh increment*/, string) {
	var phi *ssa.Phi
	fresh := false
	isInc := func(e ssa.Value, base *ssa.Phi) *ssa.BinOp {
		bo, ok := e.(*ssa.BinOp)
		if !ok || bo.Op != token.ADD {
			return nil
		}
		if n, ok := ConstInt(bo.Y); ok && n == 1 && bo.X == ssa.Value(base) {
			return bo
		}
		if n, ok := ConstInt(bo.X); ok && n == 1 && bo.Y == ssa.Value(base) {
			return bo
		}
		return nil
	}
	var start *ssa.Phi
	switch x := v.(type) {
	case *ssa.Phi:
		// the loop-header phi reachable from x through merging phis
		seen := map[*ssa.Phi]bool{}
		var find func(p *ssa.Phi)
		find = func(p *ssa.Phi) {
			if seen[p] || phi != nil {
				return
			}
			seen[p] = true
			if c12LoopHeaderPhi(p) {
				phi = p
				return
			}
			for _, e := range p.Edges {
				switch q := e.(type) {
				case *ssa.Phi:
					find(q)
				case *ssa.BinOp: // counter+1 on every arm
					if q.Op == token.ADD {
						if b, ok := q.X.(*ssa.Phi); ok {
							find(b)
						} else if b, ok := q.Y.(*ssa.Phi); ok {
							find(b)
						}
					}
				}
			}
		}
		find(x)
		if phi != x {
			start = x
		}
	case *ssa.BinOp:
		if p, ok := x.X.(*ssa.Phi); ok && isInc(x, p) != nil {
			phi, fresh = p, true
		} else if p, ok := x.Y.(*ssa.Phi); ok && isInc(x, p) != nil {
			phi, fresh = p, true
		}
	}
	if phi == nil {
		return nil, false, "the value compared with the threshold is not a loop-carried counter (phi) or counter+1"
	}
	c := &c12Counter{phi: phi}
	h := phi.Block()
	seenInc := map[*ssa.BinOp]bool{}
	leaves := c12NetLeaves(phi)
	if start != nil {
		// the merged value after the loop: its other inputs must be the same counter or its start value
		seen := map[*ssa.Phi]bool{phi: true}
		var expand func(p *ssa.Phi)
		expand = func(p *ssa.Phi) {
			if seen[p] {
				return
			}
			seen[p] = true
			for i, e := range p.Edges {
				if q, ok := e.(*ssa.Phi); ok {
					expand(q)
					continue
				}
				leaves = append(leaves, c12NetLeaf{e, p.Block().Preds[i]})
			}
		}
		expand(start)
	}
	for _, lf := range leaves {
		switch {
		case lf.Val == ssa.Value(phi):
		case isInc(lf.Val, phi) != nil:
			if inc := isInc(lf.Val, phi); !seenInc[inc] {
				seenInc[inc] = true
				c.incs = append(c.incs, inc)
			}
		default:
			if n, ok := ConstInt(lf.Val); ok && n == 0 && !c12InLoop(h, lf.From) {
				continue
			}
			return nil, false, "the counter has an update other than `start at 0` and `+1`"
		}
	}
	if len(c.incs) == 0 {
		return nil, false, "the counter is never incremented"
	}
	return c, fresh, ""
}

// counted: every path leaving block at has passed an increment of the counter
// in this iteration.
func (c *c12Counter) counted(at *ssa.BasicBlock) bool {
	for _, inc := range c.incs {
		if inc.Block() == at || inc.Block().Dominates(at) {
			return true
		}
	}
	return false
}

// c12Leaf is one way the entry point can return: a return instruction of the
// entry point itself, or of a helper whose results the entry point hands back.
type c12Leaf struct {
	fn      *ssa.Function
	ret     *ssa.Return
	results []ssa.Value // the entry point's result tuple on this way out
	facts   []CondFact  // what is known there
}

// leaves lists the ways fn returns, looking through returns that hand back the
// results of a helper call: those are replaced by the helper's own returns
// (minus the ones contradicted by what the caller knows about the call's other
// results).
func (sc *c12Scope) leaves(fn *ssa.Function) []c12Leaf { return sc.leavesN(fn, 0) }

func (sc *c12Scope) leavesN(fn *ssa.Function, depth int) []c12Leaf {
	errIdx := ErrResultIndex(fn)
	var out []c12Leaf
	callOf := c12CallOf
	for _, ri := range Returns(fn) {
		facts := sc.factsAt(ri.Ret.Block())
		var call *ssa.Call
		var g *ssa.Function
		ci := 0
		if errIdx >= 0 && depth < c12MaxDepth {
			call, ci = callOf(ri.Results[errIdx])
			if call != nil {
				g = sc.calleeIn(call)
			}
		}
		if g == nil || (Precedes(call, ri.Ret) == false) {
			out = append(out, c12Leaf{fn, ri.Ret, ri.Results, facts})
			continue
		}
		// what the caller knows about the call's results rules some of them out
		contradicted := func(sub c12Leaf) bool {
			var at *ssa.BasicBlock
			if sub.fn == g {
				at = sub.ret.Block()
			}
			return c12Contradicted(call, sub.results, at, facts)
		}
		for _, sub := range sc.leavesN(g, depth+1) {
			if len(sub.results) <= ci || contradicted(sub) {
				continue
			}
			res := make([]ssa.Value, len(ri.Results))
			for k, v := range ri.Results {
				res[k] = v
				if c, j := callOf(v); c == call && j < len(sub.results) {
					res[k] = sub.results[j]
				}
			}
			out = append(out, c12Leaf{sub.fn, sub.ret, res, append(append([]CondFact(nil), sub.facts...), facts...)})
		}
	}
	return out
}

// errLeaves splits the ways out of fn into those that report success with a
// constant nil error (acks), and the others whose error is not known non-nil.
func (sc *c12Scope) errLeaves(fn *ssa.Function) (acks, others []c12Leaf) {
	idx := ErrResultIndex(fn)
	for _, lf := range sc.leaves(fn) {
		v := lf.results[idx]
		switch {
		case IsNilConst(v):
			acks = append(acks, lf)
		case sc.neverNil(v, 0):
		default:
			if k, isNil := c12NilFact(lf.facts, func(o ssa.Value) bool { return sc.sameVal(o, v) }); k && !isNil {
				continue // plain error return (e.g. the slurp failed)
			}
			others = append(others, lf)
		}
	}
	return
}

// checkFallthrough decides whether the error returned at a non-acknowledging
// return is, on every arm of the collector loop, known non-nil or carried over
// unchanged by an arm that counted a success.
func (cx *c12Ctx) checkFallthrough(fan *c12Fan, ctr *c12Counter, lf c12Leaf, errIdx int) (status Status, detail string) {
	sc := fan.sc
	header := fan.recvLoop.Header
	if lf.fn != header.Parent() {
		return Undecided, "the error of this return is computed outside the function that collects the replicas' answers; not followed"
	}
	msgErr := func(v ssa.Value) bool {
		f, ok := fan.msg.field(v)
		return ok && f == fan.errField
	}
	nonNil := func(v ssa.Value, facts []CondFact) bool {
		if sc.neverNil(v, 0) {
			return true
		}
		same := func(o ssa.Value) bool {
			if sameOriginStrict(o, v) || sc.sameVal(o, v) {
				return true
			}
			return msgErr(o) && msgErr(v)
		}
		k, isNil := c12NilFact(facts, same)
		return k && !isNil
	}
	seen := map[*ssa.Phi]bool{}
	status, detail = Discharged, ""
	bad := func(st Status, d string) {
		if status == Discharged || (status == Undecided && st == Violated) {
			status, detail = st, d
		}
	}
	var walk func(v ssa.Value, facts []CondFact, at *ssa.BasicBlock)
	walk = func(v ssa.Value, facts []CondFact, at *ssa.BasicBlock) {
		if nonNil(v, facts) {
			return
		}
		if _, isPhi := v.(*ssa.Phi); !isPhi {
			// a value handed through a helper stands for what the helper was given
			if rv := sc.resAt(v, facts); rv != v && nonNil(rv, facts) {
				return
			}
		}
		if phi, ok := v.(*ssa.Phi); ok {
			if phi.Block() == header && c12InLoop(header, at) && !(fan.recvLoop.Latch == at) {
				// the error carried into this iteration leaves arm `at` unchanged
				if !ctr.counted(at) {
					bad(Violated, fmt.Sprintf("a collector arm (block %d) neither counts a success nor records an error: with that answer the function can fall through and return a nil error without quorum", at.Index))
				}
			}
			if seen[phi] {
				return
			}
			seen[phi] = true
			for i, e := range phi.Edges {
				pred := phi.Block().Preds[i]
				walk(e, sc.edgeFacts(pred, phi.Block()), pred)
			}
			return
		}
		switch {
		case !(header == at || header.Dominates(at)):
			// value from before the collector loop: initial value; that it is overwritten
			// before the fall-through is the counting argument (not decided)
		case c12InLoop(header, at):
			bad(Violated, fmt.Sprintf("a collector arm (block %d) stores an error value not known to be non-nil into the returned error: a failed or mis-sized answer can be forgotten and nil returned without quorum", at.Index))
		default:
			bad(Undecided, "the returned error is recomputed after the collector loop from a value the analysis cannot prove non-nil")
		}
	}
	walk(lf.results[errIdx], sc.factsAt(lf.ret.Block()), lf.ret.Block())
	if status == Discharged {
		detail = "on every collector arm the returned error is known non-nil or carried over by an arm that counted a success (initial value from before the loop; counting argument not decided)"
	}
	return
}

// neverNil: v is an error value that is never nil: a fresh error, or the
// result of a helper of the scope all of whose returns hand back such a value.
func (sc *c12Scope) neverNil(v ssa.Value, depth int) bool {
	if isNonNilErrorExpr(v) {
		return true
	}
	call, idx := c12CallOf(v)
	if call == nil || depth > 3 {
		return false
	}
	g := sc.calleeIn(call)
	if g == nil {
		return false
	}
	rets := Returns(g)
	for _, ri := range rets {
		if idx >= len(ri.Results) {
			return false
		}
		r := ri.Results[idx]
		if c12KnownNonNil(ri.Ret.Block(), r) {
			continue
		}
		if !sc.neverNil(r, depth+1) {
			return false
		}
	}
	return len(rets) > 0
}

// c12SameRead: a and b are the same value: identical, of one origin, or two
// reads of the same field of the same (immutable) SSA struct value.
func c12SameRead(a, b ssa.Value) bool {
	if sameOriginStrict(a, b) {
		return true
	}
	fa, ok1 := originValue(a).(*ssa.Field)
	fb, ok2 := originValue(b).(*ssa.Field)
	if ok1 && ok2 {
		return fa.Field == fb.Field && c12SameRead(fa.X, fb.X)
	}
	// two loads of the same field path of a local that is written once, as a whole
	// (a struct parameter go/ssa spills to take field addresses)
	pa, ala := c12FieldPathOfLoad(a)
	pb, alb := c12FieldPathOfLoad(b)
	return ala != nil && ala == alb && pa == pb && c12WrittenOnce(ala)
}

// c12FieldPathOfLoad: v is a load of &al.f.g...; returns the path and al.
func c12FieldPathOfLoad(v ssa.Value) (string, *ssa.Alloc) {
	ld, ok := v.(*ssa.UnOp)
	if !ok || ld.Op != token.MUL {
		return "", nil
	}
	path := ""
	ad := ld.X
	for {
		fa, ok := ad.(*ssa.FieldAddr)
		if !ok {
			break
		}
		path = fmt.Sprintf(".%d%s", fa.Field, path)
		ad = fa.X
	}
	al, _ := ad.(*ssa.Alloc)
	if path == "" {
		return "", nil
	}
	return path, al
}

// c12WrittenOnce: the only write to local al is one store of a whole value, and
// its address is used for nothing but that store and (field) loads.
func c12WrittenOnce(al *ssa.Alloc) bool {
	stores := 0
	ok := true
	var scan func(addr ssa.Value, top bool)
	scan = func(addr ssa.Value, top bool) {
		if addr.Referrers() == nil {
			return
		}
		for _, r := range *addr.Referrers() {
			switch r := r.(type) {
			case *ssa.Store:
				if r.Addr == addr && top {
					stores++
				} else {
					ok = false
				}
			case *ssa.FieldAddr:
				scan(r, false)
			case *ssa.UnOp:
				if r.Op != token.MUL {
					ok = false
				}
			case *ssa.DebugRef:
			default:
				ok = false
			}
		}
	}
	scan(al, true)
	return ok && stores == 1
}

// c12KnownNonNil: the branch facts at block at say that v is not nil.
func c12KnownNonNil(at *ssa.BasicBlock, v ssa.Value) bool {
	k, isNil := c12NilFact(FactsAt(at), func(o ssa.Value) bool { return c12SameRead(o, v) || sameOrigin(o, v) })
	return k && !isNil
}

// sameOriginStrict is sameOrigin without the phi-edge relaxation.
func sameOriginStrict(a, b ssa.Value) bool {
	return a == b || originValue(a) == originValue(b)
}

// c12Collector checks the guard / counter / fall-through triple.
//
//	threshold: recognises the threshold side of the guard and says which
//	relations `counter REL threshold` are acceptable.
func (cx *c12Ctx) c12Collector(rule string, fan *c12Fan, guardName string,
	isThreshold func(ssa.Value) bool, relOK func(rel token.Token, thr ssa.Value, fresh bool) (bool, string),
	extraIncFact func(facts []CondFact) (bool, string)) {
	p, r := cx.p, cx.r
	sc := fan.sc
	fn := fan.top
	key := FuncKey(fn)
	errIdx := ErrResultIndex(fn)
	acks, others := sc.errLeaves(fn)
	if len(acks) == 0 {
		r.Violation(rule, key+"#"+guardName, p.Pos(fn.Pos()), "no return with a constant nil error found: success is reported through a value the rule cannot tie to the quorum comparison")
		return
	}
	var ctr *c12Counter
	for _, lf := range acks {
		site := c12Site(p, lf.ret)
		var found bool
		var why string
		for _, f := range lf.facts {
			thr, cv, rel, ok := c12Relation(f, isThreshold)
			if !ok {
				continue
			}
			// c12Relation is phrased from the threshold side: threshold REL counter. Flip to counter REL threshold.
			flip := map[token.Token]token.Token{token.LSS: token.GTR, token.GTR: token.LSS, token.LEQ: token.GEQ, token.GEQ: token.LEQ, token.EQL: token.EQL, token.NEQ: token.NEQ}
			rel = flip[rel]
			c, fresh, prob := c12CounterOf(cv)
			if c == nil {
				if rv := sc.res(cv); rv != cv {
					c, fresh, prob = c12CounterOf(rv)
				}
			}
			if c == nil {
				why = prob
				continue
			}
			if ok, w := relOK(rel, thr, fresh); !ok {
				why = w
				continue
			}
			if fan.recvLoop == nil || c.phi.Block() != fan.recvLoop.Header {
				why = "the compared counter is not carried by the collector loop"
				continue
			}
			found, ctr = true, c
			break
		}
		if found {
			r.OK(rule, key+"#"+guardName, site, "nil-error return is dominated by the comparison of the collector's success counter with the threshold (counter >= threshold on every path here)")
		} else {
			if why == "" {
				why = "no dominating comparison between a counter and the threshold"
			}
			r.Violation(rule, key+"#"+guardName, site, "a return with nil error is not guarded by the quorum comparison: "+why)
		}
	}
	if ctr == nil {
		return
	}
	// increments only under success facts
	for _, inc := range ctr.incs {
		facts := sc.factsAt(inc.Block())
		k, isNil := c12NilFact(facts, func(v ssa.Value) bool {
			f, ok := fan.msg.field(v)
			return ok && f == fan.errField
		})
		switch {
		case !(k && isNil):
			r.Violation(rule, key+"#count-only-successes", c12Site(p, inc), "the success counter is incremented where the error of the current replica answer is not known nil: a failed replica would count towards the quorum")
		default:
			if extraIncFact != nil {
				if ok, why := extraIncFact(facts); !ok {
					r.Violation(rule, key+"#count-only-successes", c12Site(p, inc), why)
					continue
				}
			}
			r.OK(rule, key+"#count-only-successes", c12Site(p, inc), "counter+1 only in a block dominated by the success facts of the answer received in the same iteration")
		}
	}
	for _, lf := range others {
		st, detail := cx.checkFallthrough(fan, ctr, lf, errIdx)
		switch st {
		case Discharged:
			r.OK(rule, key+"#fallthrough-error", c12Site(p, lf.ret), detail)
		case Violated:
			r.Violation(rule, key+"#fallthrough-error", c12Site(p, lf.ret), detail)
		default:
			r.Undecided(rule, key+"#fallthrough-error", c12Site(p, lf.ret), detail)
		}
	}
}

// ---------------------------------------------------------------------------
// Q-ack

func (cx *c12Ctx) report(rule, construct, site string, ok, undecided bool, detail string) {
	switch {
	case ok:
		cx.r.OK(rule, construct, site, detail)
	case undecided:
		cx.r.Undecided(rule, construct, site, detail)
	default:
		cx.r.Violation(rule, construct, site, detail)
	}
}

func c12QAck(cx *c12Ctx) {
	const rule = "Q-ack"
	p, r := cx.p, cx.r
	r.Floor(rule, 8)
	fn := cx.method("ReceiveBlob")
	sc := cx.scope(fn)
	key := FuncKey(fn)
	recvIface := p.Iface("pkg/blobserver", "BlobReceiver")
	isHelper := func(c CallSite) bool {
		return c.IsStatic("perkeep.org/pkg/blobserver", "", "ReceiveNoHash") || c.IsStatic("perkeep.org/pkg/blobserver", "", "Receive")
	}
	isOp := func(c CallSite) bool { return isHelper(c) || c.IsMethod("ReceiveBlob", recvIface) }
	dstOf := func(c CallSite) ssa.Value {
		if isHelper(c) {
			return c.Args()[1]
		}
		return c.Args()[0]
	}
	fan, prob, missing := c12FindFan(sc, isOp, dstOf)
	if fan == nil || prob != "" {
		cx.report(rule, key+"#fan-out", p.Pos(fn.Pos()), false, !missing, "replica upload: "+prob)
		return
	}
	ok, und, detail := cx.checkFanOut(fan, cx.fWRep, false)
	cx.report(rule, key+"#fan-out", p.Pos(fan.spawn.Pos()), ok, und, "uploader "+detail)

	c12RightBytes(cx, rule, fan)

	if prob, und := fan.resolveChannel(); prob != "" {
		cx.report(rule, key+"#uploader-reports-once", p.Pos(fan.op.Pos()), false, und, prob)
		return
	}
	if fan.sbField < 0 {
		r.Violation(rule, key+"#uploader-reports-once", c12Site(p, fan.sends[0]), "the uploader's message does not carry the SizedRef the replica reported: the collector cannot check the stored size")
		return
	}
	ok, detail = fan.checkReportsOnce()
	r.Check(ok, rule, key+"#uploader-reports-once", c12Site(p, fan.sends[0]), detail+" and SizedRef", detail)

	ok, und, detail = cx.checkCollectCount(fan, cx.fWRep)
	cx.report(rule, key+"#collect-count", c12Site(p, fan.msg.recv), ok, und, detail)

	slurped := c12Slurp(fan)
	isReported := func(v ssa.Value) bool {
		if b, ok := v.Type().Underlying().(*types.Basic); !ok || b.Info()&types.IsInteger == 0 {
			return false
		}
		return sc.dependsOn(v, func(u ssa.Value) bool {
			f, ok := fan.msg.field(u)
			return ok && f == fan.sbField
		})
	}
	sizeFact := func(facts []CondFact) (bool, string) {
		if slurped == nil {
			return false, "cannot identify the slurped size to compare the replica's reported size with"
		}
		for _, f := range facts {
			cond, val := c12StripNot(f.Cond, f.Val)
			bo, ok := cond.(*ssa.BinOp)
			if !ok || (bo.Op != token.EQL && bo.Op != token.NEQ) || (bo.Op == token.EQL) != val {
				continue
			}
			if isReported(bo.X) && slurped(bo.Y) || isReported(bo.Y) && slurped(bo.X) {
				return true, ""
			}
		}
		return false, "the success counter is incremented where the size the replica reported is not known equal to the slurped size: a replica that stored a truncated blob would count towards the quorum"
	}
	relOK := func(rel token.Token, thr ssa.Value, fresh bool) (bool, string) {
		switch {
		case rel == token.GEQ:
			return true, ""
		case rel == token.EQL && fresh:
			return true, ""
		case rel == token.EQL:
			return false, "`==` is applied to the carried counter, not to the freshly incremented value, so a count can pass the threshold unseen"
		}
		return false, "the dominating comparison `counter " + rel.String() + " minWritesForSuccess` is not `>=` (or `==` on counter+1)"
	}
	cx.c12Collector(rule, fan, "ack-guard", func(v ssa.Value) bool { return sc.isFieldLoad(v, cx.fMin) }, relOK, sizeFact)

	// the acknowledged SizedRef
	acks, _ := sc.errLeaves(fn)
	for _, lf := range acks {
		v := lf.results[0]
		f, isMsg := fan.msg.field(v)
		if !isMsg {
			f, isMsg = fan.msg.field(sc.res(v))
		}
		good := isMsg && f == fan.sbField
		if !good && slurped != nil {
			for _, part := range c12StructParts(v) {
				if _, isConst := part.(*ssa.Const); !isConst && slurped(part) {
					good = true
				}
			}
		}
		r.Check(good, rule, key+"#ack-value", c12Site(p, lf.ret),
			"the acknowledged SizedRef is the one reported by the replica answer just counted (or is built from the slurped size)",
			"the acknowledged SizedRef is neither the counted replica's answer nor built from the slurped size")
	}
}

// c12StructParts returns the field values of a composite literal value
// (`T{a, b}` is lowered to stores into a fresh variable that is then loaded),
// or v itself.
func c12StructParts(v ssa.Value) []ssa.Value {
	ld, ok := v.(*ssa.UnOp)
	if !ok || ld.Op != token.MUL {
		return []ssa.Value{v}
	}
	al, ok := ld.X.(*ssa.Alloc)
	if !ok || al.Referrers() == nil {
		return []ssa.Value{v}
	}
	out := []ssa.Value{v}
	for _, r := range *al.Referrers() {
		if fa, ok := r.(*ssa.FieldAddr); ok && fa.Referrers() != nil {
			for _, rr := range *fa.Referrers() {
				if st, ok := rr.(*ssa.Store); ok && st.Addr == ssa.Value(fa) {
					out = append(out, st.Val)
				}
			}
		}
	}
	return out
}

// c12Slurp finds the call(s) that read the request body into memory before the
// fan-out and returns a predicate "v is (derived from) what was slurped".
func c12Slurp(fan *c12Fan) func(ssa.Value) bool {
	sc := fan.sc
	fn := fan.top
	var src *ssa.Parameter
	for _, prm := range fn.Params {
		if IsNamed(prm.Type(), "io", "Reader") {
			src = prm
		}
	}
	if src == nil {
		return nil
	}
	var calls []*ssa.Call
	var bufs []*ssa.Alloc
	for _, f := range sc.fns {
		for _, c := range CallsIn(f, false) {
			call := c.Value()
			if call == nil || sc.calleeIn(call) != nil {
				continue // helpers of the package are looked into, not trusted
			}
			uses := false
			var bs []*ssa.Alloc
			for _, a := range c.Args() {
				switch o := sc.res(a).(type) {
				case *ssa.Parameter:
					if o == src {
						uses = true
					}
				case *ssa.Alloc:
					bs = append(bs, o)
				}
			}
			if !uses || !sc.succeededBefore(call, fan.spawn.Instr) {
				continue
			}
			calls = append(calls, call)
			bufs = append(bufs, bs...)
		}
	}
	if len(calls) == 0 {
		return nil
	}
	return func(v ssa.Value) bool {
		return sc.dependsOn(v, func(u ssa.Value) bool {
			for _, c := range calls {
				if u == ssa.Value(c) {
					return true
				}
			}
			cell := u
			if c, ok := varOf(u); ok {
				cell = c
			}
			for _, b := range bufs {
				if cell == ssa.Value(b) {
					return true
				}
			}
			return false
		})
	}
}

func c12RightBytes(cx *c12Ctx, rule string, fan *c12Fan) {
	p, r := cx.p, cx.r
	sc := fan.sc
	fn := fan.top
	construct := FuncKey(fn) + "#right-bytes"
	site := p.Pos(fan.op.Pos())
	args := fan.op.Args()
	if len(args) != 4 {
		r.Undecided(rule, construct, site, "unexpected argument list of the per-replica receive call")
		return
	}
	if prm, ok := sc.res(args[2]).(*ssa.Parameter); !ok || prm.Parent() != fn {
		r.Violation(rule, construct, site, "the blobref handed to the replica is not ReceiveBlob's own blobref parameter")
		return
	}
	slurped := c12Slurp(fan)
	if slurped == nil {
		r.Violation(rule, construct, site, "no successful read of the src parameter into memory dominates the fan-out: the replicas would share (and race on) the request's reader")
		return
	}
	rd := sc.res(args[3])
	if !slurped(rd) {
		r.Violation(rule, construct, site, "the reader handed to the replica is not derived from the bytes slurped from src")
		return
	}
	// one reader per upload: it is created inside the per-replica loop, or in a
	// function on the way from that loop to the upload
	fresh := false
	if x, ok := rd.(*ssa.Call); ok && fan.onWay(x.Parent()) {
		fresh = x.Parent() != fan.spawn.Fn || (fan.loop != nil && c12InLoop(fan.loop.Header, x.Block()))
	}
	r.Check(fresh, rule, construct, site,
		"each upload gets ReceiveBlob's blobref and its own reader, created per upload over the buffer that a successful read of src filled before the fan-out",
		"the reader handed to the replicas is created once and shared by all uploads: the first replica drains it and the others store nothing (and they race)")
}

// ---------------------------------------------------------------------------
// Q-remove

func c12QRemove(cx *c12Ctx) {
	const rule = "Q-remove"
	p, r := cx.p, cx.r
	r.Floor(rule, 6)
	fn := cx.method("RemoveBlobs")
	sc := cx.scope(fn)
	key := FuncKey(fn)
	iface := p.Iface("pkg/blobserver", "BlobRemover")
	isOp := func(c CallSite) bool { return c.IsMethod("RemoveBlobs", iface) }
	fan, prob, missing := c12FindFan(sc, isOp, func(c CallSite) ssa.Value { return c.Args()[0] })
	if fan == nil || prob != "" {
		cx.report(rule, key+"#fan-out", p.Pos(fn.Pos()), false, !missing, "replica removal: "+prob)
		return
	}
	ok, und, detail := cx.checkFanOut(fan, cx.fWRep, false)
	if ok {
		if prm, isP := sc.res(fan.op.Args()[2]).(*ssa.Parameter); !isP || prm.Parent() != fn {
			ok, detail = false, "the replicas are not asked to remove RemoveBlobs' own blobs argument"
		}
	}
	cx.report(rule, key+"#fan-out", p.Pos(fan.spawn.Pos()), ok, und, "removal "+detail)
	if prob, und := fan.resolveChannel(); prob != "" {
		cx.report(rule, key+"#reports-once", p.Pos(fan.op.Pos()), false, und, prob)
		return
	}
	ok, detail = fan.checkReportsOnce()
	r.Check(ok, rule, key+"#reports-once", c12Site(p, fan.sends[0]), detail, detail)
	ok, und, detail = cx.checkCollectCount(fan, cx.fWRep)
	cx.report(rule, key+"#collect-count", c12Site(p, fan.msg.recv), ok, und, detail)
	isConst := func(v ssa.Value) bool { _, ok := ConstInt(v); return ok }
	relOK := func(rel token.Token, thr ssa.Value, fresh bool) (bool, string) {
		n, _ := ConstInt(thr)
		if rel == token.GTR && n == 0 || rel == token.GEQ && n == 1 || rel == token.NEQ && n == 0 {
			return true, ""
		}
		return false, fmt.Sprintf("the dominating comparison `counter %s %d` does not mean 'at least one replica removed'", rel, n)
	}
	cx.c12Collector(rule, fan, "nil-guard", isConst, relOK, nil)
}

// ---------------------------------------------------------------------------
// Q-read

func c12QRead(cx *c12Ctx) {
	const rule = "Q-read"
	cx.r.Floor(rule, 9)
	cx.readFallback(rule, cx.method("Fetch"), "Fetch", cx.p.Iface("pkg/blob", "Fetcher"))
	cx.readFallback(rule, cx.method("OpenWholeRef"), "OpenWholeRef", cx.p.Iface("pkg/blobserver", "WholeRefFetcher"))
	cx.statDedup(rule)
	cx.enumerateDelegates(rule)
}

// readFallback: ordered fall-back over every read replica; the loop is left
// early only on success.
func (cx *c12Ctx) readFallback(rule string, fn *ssa.Function, method string, iface *types.Interface) {
	p, r := cx.p, cx.r
	sc := cx.scope(fn)
	key := FuncKey(fn)
	isOp := func(c CallSite) bool { return c.Value() != nil && c.IsMethod(method, iface) }
	fan, prob, missing := c12FindFan(sc, isOp, func(c CallSite) ssa.Value { return c.Args()[0] })
	if fan == nil || prob != "" {
		cx.report(rule, key+"#tries-every-read-replica", p.Pos(fn.Pos()), false, !missing, method+": "+prob)
		return
	}
	for _, e := range fan.chain {
		if e.kind != 'c' {
			r.Undecided(rule, key+"#tries-every-read-replica", p.Pos(fan.op.Pos()), "the replica read is started asynchronously (go/defer/callback); ordered fall-back not followed")
			return
		}
	}
	ok, und, detail := cx.checkFanOut(fan, cx.fRRep, true)
	cx.report(rule, key+"#tries-every-read-replica", p.Pos(fan.op.Pos()), ok, und, method+" "+detail+" (skipped only when the replica lacks the interface)")
	if !ok {
		return
	}
	opErr, hasErr, discarded := ErrValue(fan.op.Value())
	if !hasErr || discarded {
		r.Violation(rule, key+"#early-exit-only-on-success", p.Pos(fan.op.Pos()), "the replica's error is not looked at")
		return
	}
	isErrAt := func(facts []CondFact) func(ssa.Value) bool {
		return func(o ssa.Value) bool { return sameOriginStrict(o, opErr) || sc.sameValAt(o, opErr, facts) }
	}
	h := fan.loop.Header
	bad := ""
	exits := 0
	for _, u := range fan.loopFn.Blocks {
		if u == h || !c12InLoop(h, u) {
			continue
		}
		for _, v := range u.Succs {
			if c12InLoop(h, v) {
				continue
			}
			exits++
			ef := sc.edgeFacts(u, v)
			if k, isNil := c12NilFact(ef, isErrAt(ef)); !(k && isNil) {
				bad = fmt.Sprintf("the loop over the read replicas is left (block %d -> %d) where the current replica's error is not known nil: a failing or blob-less replica earlier in the list hides the copies held by later ones", u.Index, v.Index)
			}
		}
	}
	r.Check(bad == "", rule, key+"#early-exit-only-on-success", p.Pos(fan.op.Pos()),
		fmt.Sprintf("%d early exit edge(s) from the fall-back loop, all on the err==nil edge of the current replica's %s", exits, method), bad)
	n := 0
	good := true
	rv := ResultValue(fan.op.Value(), 0)
	for _, lf := range sc.leaves(fn) {
		// the returned reader, on each way it can come in where the current
		// replica's error is known nil
		for _, pl := range sc.phiLeaves(lf.results[0], lf.ret.Block()) {
			facts := append(append([]CondFact(nil), pl.facts...), lf.facts...)
			if k, isNil := c12NilFact(facts, isErrAt(facts)); k && isNil {
				n++
				if rv == nil || !(sameOriginStrict(pl.val, rv) || sc.sameValAt(pl.val, rv, facts)) {
					good = false
				}
			}
		}
	}
	switch {
	case n > 0:
		r.Check(good, rule, key+"#returns-that-replicas-reader", p.Pos(fan.op.Pos()),
			"the return on the success edge hands back the reader of the replica that succeeded", "a return on the success edge does not hand back the successful replica's reader")
	default:
		r.Undecided(rule, key+"#returns-that-replicas-reader", p.Pos(fan.op.Pos()), "no return (or merged result value) found on the edge where the current replica's error is known nil; cannot tell which reader is handed back")
	}
}

// refOfParam: v is prm.Ref for a blob.SizedRef parameter prm of the callback
// (the parameter the replica supplies), possibly handed on to helpers.
func (sc *c12Scope) refOfParam(v ssa.Value, cb *ssa.Function) bool {
	isParam := func(x ssa.Value) bool {
		prm, ok := sc.res(x).(*ssa.Parameter)
		return ok && prm.Parent() == cb
	}
	switch x := v.(type) {
	case *ssa.Parameter:
		if a := sc.argOf(x); a != nil {
			return sc.refOfParam(a, cb)
		}
	case *ssa.Field:
		return fieldName(x.X.Type(), x.Field) == "Ref" && isParam(x.X)
	case *ssa.UnOp:
		if x.Op != token.MUL {
			return false
		}
		fa, ok := x.X.(*ssa.FieldAddr)
		if !ok {
			if o := originValue(x); o != ssa.Value(x) {
				return sc.refOfParam(o, cb)
			}
			return false
		}
		if fieldName(fa.X.Type(), fa.Field) != "Ref" {
			return false
		}
		al, ok := fa.X.(*ssa.Alloc)
		if !ok {
			return false
		}
		var whole []*ssa.Store
		for _, st := range storesTo(al) {
			whole = append(whole, st)
		}
		// no field stores either
		if refs := al.Referrers(); refs != nil {
			for _, rr := range *refs {
				if f2, ok := rr.(*ssa.FieldAddr); ok && f2.Referrers() != nil {
					for _, r3 := range *f2.Referrers() {
						if st, ok := r3.(*ssa.Store); ok && st.Addr == ssa.Value(f2) {
							return false
						}
					}
				}
			}
		}
		return len(whole) == 1 && isParam(whole[0].Val)
	}
	return false
}

func (cx *c12Ctx) statDedup(rule string) {
	p, r := cx.p, cx.r
	fn := cx.method("StatBlobs")
	sc := cx.scope(fn)
	key := FuncKey(fn)
	iface := p.Iface("pkg/blobserver", "BlobStatter")
	isOp := func(c CallSite) bool { return c.Value() != nil && c.IsMethod("StatBlobs", iface) }
	fan, prob, missing := c12FindFan(sc, isOp, func(c CallSite) ssa.Value { return c.Args()[0] })
	if fan == nil || prob != "" {
		cx.report(rule, key+"#asks-every-read-replica", p.Pos(fn.Pos()), false, !missing, "replica stat: "+prob)
		return
	}
	ok, und, detail := cx.checkFanOut(fan, cx.fRRep, false)
	if ok {
		if prm, isP := sc.res(fan.op.Args()[2]).(*ssa.Parameter); !isP || prm.Parent() != fn {
			ok, detail = false, "the replicas are not asked about StatBlobs' own blobs argument"
		}
	}
	cx.report(rule, key+"#asks-every-read-replica", p.Pos(fan.spawn.Pos()), ok, und, "stat "+detail)

	construct := key + "#report-once"
	// the caller's fn
	var userFn *ssa.Parameter
	for _, prm := range fn.Params {
		if _, ok := prm.Type().Underlying().(*types.Signature); ok {
			userFn = prm
		}
	}
	if userFn == nil {
		brokenf("anchor unresolved: the callback parameter of %s", key)
	}
	// a direct hand-over of fn to the replica would bypass the de-duplication
	cbVal := sc.res(fan.op.Args()[3])
	if cbVal == ssa.Value(userFn) {
		r.Violation(rule, construct, p.Pos(fan.op.Pos()), "the caller's fn is handed to every replica directly: a blob held by two read replicas is reported twice")
		return
	}
	var cb *ssa.Function
	switch x := cbVal.(type) {
	case *ssa.MakeClosure:
		cb, _ = x.Fn.(*ssa.Function)
	case *ssa.Function:
		cb = x
	}
	if cb == nil || !sc.in[cb] {
		r.Undecided(rule, construct, p.Pos(fan.op.Pos()), "the callback handed to the replica's StatBlobs is not a function literal, a method value or a function of this package")
		return
	}
	// calls of the caller's fn in the callback's effective body
	var userCalls []CallSite
	for _, f := range sc.fns {
		for _, c := range CallsIn(f, false) {
			if c.Common().IsInvoke() || c.Common().StaticCallee() != nil {
				continue
			}
			if sc.res(c.Common().Value) == ssa.Value(userFn) {
				userCalls = append(userCalls, c)
			}
		}
	}
	if len(userCalls) == 0 {
		r.Violation(rule, construct, p.Pos(cb.Pos()), "the per-replica callback never calls the caller's fn")
		return
	}
	shared := func(v ssa.Value) bool { // created once per StatBlobs call
		in, ok := v.(ssa.Instruction)
		return ok && sc.in[in.Parent()] && sc.oncePerCall(in)
	}
	for _, uc := range userCalls {
		site := p.Pos(uc.Pos())
		if !sc.under(uc.Fn, cb) || uc.IsGo() || uc.IsDefer() {
			r.Undecided(rule, construct, site, "fn is called outside the per-replica callback's own effective body (or asynchronously); not followed")
			continue
		}
		sync := true
		for g := uc.Fn; g != cb; {
			e := sc.enter(g)
			if e == nil || e.kind != 'c' {
				sync = false
				break
			}
			g = e.site.Fn
		}
		if !sync {
			r.Undecided(rule, construct, site, "fn is called from a function the callback starts asynchronously; not followed")
			continue
		}
		// the function-wide mutex held here
		var lock c12Cell
		haveLock := false
		for _, f := range sc.fns {
			if !sc.under(f, cb) {
				continue
			}
			for _, c := range CallsIn(f, false) {
				if k, addr, ok := c12MutexOp(c); ok && k == "Lock" {
					if cl, ok := sc.cell(addr); ok && shared(cl.root) && sc.holds(uc.Instr, cl, cb, 0) {
						lock, haveLock = cl, true
					}
				}
			}
		}
		if !haveLock {
			r.Violation(rule, construct, site, "fn is called without holding a mutex shared by all replicas' callbacks: two replicas reporting the same blob race on the need map and can both report it")
			continue
		}
		// membership guard
		var need *ssa.MakeMap
		var lookup *ssa.Lookup
		for _, f := range sc.factsAt(uc.Block()) {
			cond, val := c12StripNot(f.Cond, f.Val)
			var lk *ssa.Lookup
			switch x := cond.(type) {
			case *ssa.Lookup:
				if !x.CommaOk {
					lk = x
				}
			case *ssa.Extract:
				if l2, ok := x.Tuple.(*ssa.Lookup); ok && l2.CommaOk && x.Index == 1 {
					lk = l2
				}
			}
			if lk == nil || !val || !sc.under(lk.Parent(), cb) {
				continue
			}
			if mm, ok := sc.res(lk.X).(*ssa.MakeMap); ok && shared(mm) && sc.refOfParam(lk.Index, cb) {
				need, lookup = mm, lk
			}
		}
		if need == nil {
			r.Violation(rule, construct, site, "fn(sb) is not dominated by a positive membership test need[sb.Ref] on a map shared by all replicas' callbacks: a blob present on several read replicas is reported once per replica")
			continue
		}
		if !sc.holds(lookup, lock, cb, 0) {
			r.Violation(rule, construct, site, "the membership test need[sb.Ref] is evaluated outside the mutex")
			continue
		}
		if !sc.heldFromTo(lookup, uc.Instr, lock, 0) {
			r.Violation(rule, construct, site, "the mutex can be released between the membership test need[sb.Ref] and the call of fn: another replica's callback can pass the same test in between and the blob is reported twice")
			continue
		}
		// delete on the same path under the lock
		okDel := false
		for _, f := range sc.fns {
			if !sc.under(f, cb) {
				continue
			}
			for _, c := range CallsIn(f, false) {
				if !c12Builtin(c, "delete") || sc.res(c.Args()[0]) != ssa.Value(need) || !sc.refOfParam(c.Args()[1], cb) {
					continue
				}
				if !sc.holds(c.Instr, lock, cb, 0) {
					continue
				}
				switch {
				case sc.precedes(c.Instr, uc.Instr):
					okDel = true
				case c.Fn == uc.Fn:
					leaks := LeakingExits(PathQuery{Start: uc.Instr, Stop: func(in ssa.Instruction) bool { return in == ssa.Instruction(c.Instr) }, IgnorePanics: true})
					okDel = okDel || len(leaks) == 0
				}
			}
		}
		if !okDel {
			r.Violation(rule, construct, site, "no delete(need, sb.Ref) under the mutex on every path that calls fn: the next replica holding the blob reports it again")
			continue
		}
		// need initialised with every requested blob before the fan-out
		okInit := false
		for _, f := range sc.fns {
			for _, b := range f.Blocks {
				for _, in := range b.Instrs {
					mu, ok := in.(*ssa.MapUpdate)
					if !ok || sc.res(mu.Map) != ssa.Value(need) {
						continue
					}
					l := c12InnermostLoop(b)
					if l == nil || l.Idx == nil || !l.FromZeroStep1 || l.Done == nil || len(l.Done.Instrs) == 0 {
						continue
					}
					if !sc.precedes(l.Done.Instrs[0], fan.spawn.Instr) || c12InLoop(l.Header, fan.spawn.Block()) {
						continue
					}
					la, ok := sc.lenArg(l.Bound)
					if !ok {
						continue
					}
					prm, ok := sc.res(la).(*ssa.Parameter)
					if !ok || prm.Parent() != fn {
						continue
					}
					kl, ok := originValue(mu.Key).(*ssa.UnOp)
					if !ok || kl.Op != token.MUL {
						continue
					}
					ia, ok := kl.X.(*ssa.IndexAddr)
					if !ok || sc.res(ia.X) != ssa.Value(prm) || ia.Index != l.Idx {
						continue
					}
					if c, ok := mu.Value.(*ssa.Const); ok && c.Value != nil && c.Value.String() == "true" && !c12SkipPath(l, b, nil) {
						okInit = true
					}
				}
			}
		}
		r.Check(okInit, rule, construct, site,
			"fn(sb) runs under a mutex created once per StatBlobs call, behind need[sb.Ref]==true on a map created once per call, with delete(need, sb.Ref) on the same path under the lock; need was set for every requested ref before the fan-out",
			"the need map is not filled with need[ref]=true for every element of the blobs argument before the replicas are asked: nothing (or not everything) would ever be reported")
	}
}

func (cx *c12Ctx) enumerateDelegates(rule string) {
	p, r := cx.p, cx.r
	fn := cx.method("EnumerateBlobs")
	sc := cx.scope(fn)
	construct := FuncKey(fn) + "#merged-over-read-replicas"
	var calls []CallSite
	for _, f := range sc.fns {
		for _, c := range CallsIn(f, false) {
			if c.IsStatic("perkeep.org/pkg/blobserver", "", "MergedEnumerateStorage") {
				calls = append(calls, c)
			}
		}
	}
	if len(calls) != 1 || calls[0].Value() == nil {
		r.Violation(rule, construct, p.Pos(fn.Pos()), "EnumerateBlobs does not delegate to exactly one blobserver.MergedEnumerateStorage call: overlapping replicas would be enumerated with duplicates or out of order")
		return
	}
	c := calls[0]
	args := c.Args()
	bad := ""
	if !sc.isFieldLoad(args[2], cx.fRRep) {
		bad = "the sources merged are not sto." + cx.fieldName(cx.fRRep)
	}
	// ctx, dest, after, limit are the method's own parameters (params[0] is the receiver)
	for i, k := range map[int]int{0: 1, 1: 2, 3: 3, 4: 4} {
		if k >= len(fn.Params) || sc.res(args[i]) != ssa.Value(fn.Params[k]) {
			bad = fmt.Sprintf("argument %d of MergedEnumerateStorage is not EnumerateBlobs' own parameter", i)
		}
	}
	for _, ri := range Returns(fn) {
		if !sc.sameVal(ri.Results[0], c.Value()) {
			bad = "a return does not hand back MergedEnumerateStorage's error"
		}
	}
	r.Check(bad == "", rule, construct, p.Pos(c.Pos()),
		"delegates to MergedEnumerateStorage(ctx, dest, sto."+cx.fieldName(cx.fRRep)+", after, limit) and returns its error", bad)
}

// ---------------------------------------------------------------------------
// Q-config

// fieldStores lists the stores of the scope's functions to field f of a storage object.
func (sc *c12Scope) fieldStores(f int) []*ssa.Store {
	var out []*ssa.Store
	for _, fn := range sc.fns {
		out = append(out, sc.cx.fieldStoresIn(fn, f)...)
	}
	return out
}

func (cx *c12Ctx) fieldStoresIn(fn *ssa.Function, f int) []*ssa.Store {
	var out []*ssa.Store
	for _, b := range fn.Blocks {
		for _, in := range b.Instrs {
			if st, ok := in.(*ssa.Store); ok {
				if g, ok := cx.fieldAddr(st.Addr); ok && g == f {
					out = append(out, st)
				}
			}
		}
	}
	return out
}

func (sc *c12Scope) configCall(method, key string) *ssa.Call {
	for _, fn := range sc.fns {
		for _, c := range CallsIn(fn, false) {
			if c.IsStatic("go4.org/jsonconfig", "Obj", method) && c.Value() != nil && len(c.Args()) >= 2 {
				if s, ok := ConstString(c.Args()[1]); ok && s == key {
					return c.Value()
				}
			}
		}
	}
	return nil
}

// storesOf: stores to field f whose value is v.
func (sc *c12Scope) storesOf(f int, v ssa.Value) []*ssa.Store {
	var out []*ssa.Store
	for _, st := range sc.fieldStores(f) {
		for _, pl := range sc.phiLeaves(st.Val, st.Block()) {
			if sameOriginStrict(pl.val, v) || sc.sameVal(pl.val, v) {
				out = append(out, st)
				break
			}
		}
	}
	return out
}

func c12LastInstr(b *ssa.BasicBlock) ssa.Instruction { return b.Instrs[len(b.Instrs)-1] }

func c12QConfig(cx *c12Ctx) {
	const rule = "Q-config"
	p, r := cx.p, cx.r
	// 7 clauses of the registered constructor + 1 other constructor + at least
	// one write site per field (5); how many functions the writes are spread
	// over is not part of the property
	r.Floor(rule, 13)
	fn := cx.ctor
	sc := cx.scope(fn)
	key := FuncKey(fn)
	pos := p.Pos(fn.Pos())

	backends := sc.configCall("RequiredList", "backends")
	isBackends := func(v ssa.Value) bool {
		return sc.isFieldLoad(v, cx.fWPref) || backends != nil && (sameOriginStrict(v, backends) || sc.sameVal(v, backends))
	}
	isN := func(v ssa.Value) bool { // len(backends)
		a, ok := sc.lenArg(v)
		return ok && isBackends(a)
	}
	// success returns: nil error
	succ, _ := sc.errLeaves(fn)
	if len(succ) == 0 {
		r.Undecided(rule, key+"#success-return", pos, "no return with a constant nil error in the constructor")
		return
	}
	beforeSuccess := func(in ssa.Instruction) bool {
		for _, lf := range succ {
			if !sc.precedes(in, lf.ret) {
				return false
			}
		}
		return true
	}

	// (1) config keys feed the right fields; quorum default = all
	mw := sc.configCall("OptionalInt", "minWritesForSuccess")
	{
		okKeys := backends != nil && len(sc.storesOf(cx.fWPref, backends)) > 0
		rb := sc.configCall("OptionalList", "readBackends")
		okKeys = okKeys && rb != nil && len(sc.storesOf(cx.fRPref, rb)) > 0
		r.Check(okKeys, rule, key+"#config-keys", pos,
			"config key backends feeds the write prefixes and readBackends the read prefixes",
			"the write/read prefix fields are not filled from config keys backends/readBackends respectively")
		switch {
		case mw == nil || len(sc.storesOf(cx.fMin, mw)) == 0:
			r.Violation(rule, key+"#quorum-default-all", pos, "the quorum field is not set from config key minWritesForSuccess")
		case !isN(mw.Call.Args[2]):
			r.Violation(rule, key+"#quorum-default-all", p.Pos(mw.Pos()), "the default of minWritesForSuccess is not len(backends): an unconfigured replica set would acknowledge before all replicas stored the blob (documented default: all)")
		default:
			r.OK(rule, key+"#quorum-default-all", p.Pos(mw.Pos()), "minWritesForSuccess defaults to len(backends) and is stored in the quorum field")
		}
	}

	// helper: a conditional default `if COND { obj.f = VAL }` whose test precedes every success return
	condDefault := func(f int, valOK func(ssa.Value) bool, condOK func(cond ssa.Value, val bool) bool) (*ssa.Store, ssa.Instruction) {
		for _, st := range sc.fieldStores(f) {
			if !valOK(st.Val) {
				continue
			}
			for _, fact := range sc.factsAt(st.Block()) {
				cond, val := c12StripNot(fact.Cond, fact.Val)
				if !condOK(cond, val) || fact.At == nil {
					continue
				}
				if test := c12LastInstr(fact.At); beforeSuccess(test) {
					return st, test
				}
			}
		}
		// the value is defaulted in a local and stored afterwards: the stored
		// value merges VAL on the COND arm
		for _, st := range sc.fieldStores(f) {
			if _, isPhi := st.Val.(*ssa.Phi); !isPhi || !beforeSuccess(st) {
				continue
			}
			for _, pl := range sc.phiLeaves(st.Val, st.Block()) {
				if !valOK(pl.val) {
					continue
				}
				for _, fact := range pl.facts {
					if cond, val := c12StripNot(fact.Cond, fact.Val); condOK(cond, val) {
						return st, st
					}
				}
			}
		}
		return nil, nil
	}
	isZeroTest := func(isSubject func(ssa.Value) bool) func(cond ssa.Value, val bool) bool {
		return func(cond ssa.Value, val bool) bool {
			bo, ok := cond.(*ssa.BinOp)
			if !ok || (bo.Op != token.EQL && bo.Op != token.NEQ) || (bo.Op == token.EQL) != val {
				return false
			}
			zero := func(v ssa.Value) bool {
				if n, ok := ConstInt(v); ok && n == 0 {
					return true
				}
				return IsNilConst(v)
			}
			return isSubject(bo.X) && zero(bo.Y) || isSubject(bo.Y) && zero(bo.X)
		}
	}

	// (2) configured 0 means all
	{
		isMin := func(v ssa.Value) bool {
			return sc.isFieldLoad(v, cx.fMin) || mw != nil && (sameOriginStrict(v, mw) || sc.sameVal(v, mw))
		}
		st, _ := condDefault(cx.fMin, isN, isZeroTest(isMin))
		if st != nil {
			r.OK(rule, key+"#zero-quorum-means-all", c12Site(p, st), "a quorum of 0 is replaced by len(backends) before any success return")
		} else {
			r.Violation(rule, key+"#zero-quorum-means-all", pos, "a configured minWritesForSuccess of 0 is not replaced by len(backends) before the storage is returned: with `==` no write is ever acknowledged and the fall-through returns a nil error without quorum")
		}
	}

	// (3) at least one backend
	for _, lf := range succ {
		found := false
		for _, f := range lf.facts {
			_, thr, rel, ok := c12Relation(f, isN)
			if !ok {
				continue
			}
			if n, isC := ConstInt(thr); isC && (rel == token.NEQ && n == 0 || rel == token.GTR && n == 0 || rel == token.GEQ && n == 1) {
				found = true
			}
		}
		r.Check(found, rule, key+"#rejects-zero-replicas", c12Site(p, lf.ret),
			"the success return is dominated by len(backends) != 0",
			"a storage with zero write replicas can be returned: every receive would fall through with a nil error and nothing stored")
	}

	// (4) readBackends default to backends, before the read replicas are resolved
	var readDefault *ssa.Store
	var readDefaultTest ssa.Instruction
	{
		rb := sc.configCall("OptionalList", "readBackends")
		isRPVal := func(v ssa.Value) bool {
			return sc.isFieldLoad(v, cx.fRPref) || rb != nil && (sameOriginStrict(v, rb) || sc.sameVal(v, rb))
		}
		isRP := func(v ssa.Value) bool {
			if isRPVal(v) {
				return true
			}
			a, ok := sc.lenArg(v)
			return ok && isRPVal(a)
		}
		st, test := condDefault(cx.fRPref, isBackends, isZeroTest(isRP))
		readDefault, readDefaultTest = st, test
		if st != nil {
			r.OK(rule, key+"#read-defaults-to-write", c12Site(p, st), "an empty readBackends list is replaced by backends before any success return")
		} else {
			r.Violation(rule, key+"#read-defaults-to-write", pos, "an empty readBackends list is not replaced by backends: the storage would have no read replicas and Fetch would return (nil, 0, nil)")
		}
	}

	// (5)/(6) one replica per prefix, complete before success
	fill := func(pref, rep int, what string, follow bool) {
		construct := key + "#" + what + "-one-per-prefix"
		var good ssa.Instruction
		why := "no loop over sto." + cx.fieldName(pref) + " appends the resolved storage to sto." + cx.fieldName(rep)
		for _, ap := range sc.appendChains(rep) {
			l := ap.loop
			if l == nil || l.Idx == nil {
				continue
			}
			if !l.FromZeroStep1 || !sc.lenOfField(l.Bound, pref) {
				why = "the loop filling sto." + cx.fieldName(rep) + " does not run over every element of sto." + cx.fieldName(pref)
				continue
			}
			fromPrefix := false
			for _, av := range c12AppendedValues(ap.call.Call.Args[1]) {
				if sc.dependsOn(av, func(u ssa.Value) bool {
					ia, ok := u.(*ssa.IndexAddr)
					return ok && sc.isFieldLoad(ia.X, pref) && ia.Index == l.Idx
				}) {
					fromPrefix = true
				}
			}
			if !fromPrefix {
				why = "the storage appended to sto." + cx.fieldName(rep) + " is not resolved from the current element of sto." + cx.fieldName(pref)
				continue
			}
			if c12SkipPath(l, ap.call.Block(), nil) {
				why = "some iteration over sto." + cx.fieldName(pref) + " continues without appending a replica: indexes of prefixes and replicas no longer correspond and fewer replicas exist than the quorum assumes"
				continue
			}
			if l.Done == nil || len(l.Done.Instrs) == 0 || !beforeSuccess(l.Done.Instrs[0]) {
				why = "a success return can be reached before the loop over sto." + cx.fieldName(pref) + " has finished"
				continue
			}
			if ap.final != nil && !beforeSuccess(ap.final) {
				why = "the slice built from sto." + cx.fieldName(pref) + " is not installed as sto." + cx.fieldName(rep) + " before every success return"
				continue
			}
			if follow {
				// the prefixes iterated must be read after the defaulting
				la, _ := sc.lenArg(l.Bound)
				ld, _ := sc.res(la).(*ssa.UnOp)
				if ld == nil || readDefaultTest == nil || !sc.precedes(readDefaultTest, ld) || sc.precedes(ld, readDefault) {
					why = "the read prefixes are iterated before the empty-list default is applied"
					continue
				}
			}
			good = ap.call
		}
		if good != nil {
			r.OK(rule, construct, c12Site(p, good), "every element of sto."+cx.fieldName(pref)+" is resolved and appended to sto."+cx.fieldName(rep)+" (or the constructor fails) before any success return")
		} else {
			r.Violation(rule, construct, pos, why)
		}
	}
	fill(cx.fWPref, cx.fWRep, "write-replicas", false)
	fill(cx.fRPref, cx.fRRep, "read-replicas", true)

	// (7) other constructors: quorum = number of write replicas
	ix := cx.index()
	checked := map[*ssa.Function]bool{}
	for _, f := range ix.fns {
		if !cx.allocates(f) {
			continue
		}
		// the entry points that build a storage through f
		for _, top := range cx.constructorsVia(f) {
			if top == fn || checked[top] {
				continue
			}
			checked[top] = true
			tsc := cx.scope(top)
			okQ := false
			for _, st := range tsc.fieldStores(cx.fMin) {
				a, ok := tsc.lenArg(st.Val)
				if !ok {
					continue
				}
				for _, ws := range tsc.fieldStores(cx.fWRep) {
					if sameOriginStrict(ws.Val, a) || tsc.sameVal(ws.Val, a) {
						okQ = true
					}
				}
			}
			r.Check(okQ, rule, FuncKey(top)+"#quorum-all", p.Pos(top.Pos()),
				"sets the quorum to len of the very slice it installs as write replicas",
				"constructs a replica storage whose quorum is not the number of its write replicas")
		}
	}

	// (8) fields are written only on objects under construction
	type fk struct {
		fn *ssa.Function
		f  int
	}
	writes := map[fk]*ssa.Store{}
	bad := map[fk]string{}
	var order []fk
	for _, f := range ix.fns {
		for _, b := range f.Blocks {
			for _, in := range b.Instrs {
				st, ok := in.(*ssa.Store)
				if !ok {
					continue
				}
				g, ok := cx.fieldAddr(st.Addr)
				if !ok {
					continue
				}
				k := fk{f, g}
				if _, dup := writes[k]; !dup {
					order = append(order, k)
					writes[k] = st
				}
				if why := cx.underConstruction(st, 0); why != "" && bad[k] == "" {
					bad[k], writes[k] = why, st
				}
			}
		}
	}
	for _, k := range order {
		st := writes[k]
		r.Check(bad[k] == "", rule, FuncKey(k.fn)+"#writes-"+cx.fieldName(k.f), c12Site(p, st),
			"field written only on an object under construction: one this function allocated, or one every caller of this unexported helper allocated and handed in",
			"a replicaStorage field is modified after construction ("+bad[k]+"): replica sets and quorum are read without synchronisation and are assumed constant by every rule of this property")
	}
}

// allocates: f allocates a storage object.
func (cx *c12Ctx) allocates(f *ssa.Function) bool {
	for _, b := range f.Blocks {
		for _, in := range b.Instrs {
			if x, ok := in.(*ssa.Alloc); ok {
				if pt, ok := x.Type().(*types.Pointer); ok && cx.isObj(pt.Elem()) {
					if _, isPtr := pt.Elem().(*types.Pointer); !isPtr {
						return true
					}
				}
			}
		}
	}
	return false
}

// constructorsVia: the functions through which a storage allocated in f comes
// into being: f itself when it is exported, used as a value or has no callers;
// otherwise (an unexported helper that is only called) its callers, transitively.
func (cx *c12Ctx) constructorsVia(f *ssa.Function) []*ssa.Function {
	ix := cx.index()
	var out []*ssa.Function
	seen := map[*ssa.Function]bool{}
	var walk func(g *ssa.Function, depth int)
	walk = func(g *ssa.Function, depth int) {
		if seen[g] {
			return
		}
		seen[g] = true
		callers := ix.callers[g]
		helper := g.Parent() != nil || (g.Synthetic == "" && !token.IsExported(g.Name()))
		if !helper || len(callers) == 0 || len(ix.valueUse[g]) > 0 || len(ix.makers[g]) > 1 || depth > c12MaxDepth {
			out = append(out, g)
			return
		}
		for _, c := range callers {
			walk(c.Fn, depth+1)
		}
	}
	walk(f, 0)
	return out
}

// underConstruction: "" when the store writes a field of an object allocated
// by the storing function, or handed in by every caller of an unexported
// helper from an object under construction there; otherwise the reason.
func (cx *c12Ctx) underConstruction(st *ssa.Store, depth int) string {
	fa, ok := st.Addr.(*ssa.FieldAddr)
	if !ok {
		return "not a field store"
	}
	return cx.freshValue(fa.X, depth)
}

func (cx *c12Ctx) freshValue(v ssa.Value, depth int) string {
	ix := cx.index()
	v = originValue(v)
	switch x := v.(type) {
	case *ssa.Alloc:
		return ""
	case *ssa.FreeVar:
		fn := x.Parent()
		idx := -1
		for i, f := range fn.FreeVars {
			if f == x {
				idx = i
			}
		}
		mk := ix.makers[fn]
		if idx < 0 || len(mk) == 0 || depth > c12MaxDepth {
			return "the object is captured from an unknown place"
		}
		for _, mc := range mk {
			b := mc.Bindings[idx]
			// a captured variable holding the object: its stored values
			if al, ok := b.(*ssa.Alloc); ok {
				if _, isPtrVar := al.Type().(*types.Pointer).Elem().(*types.Pointer); isPtrVar {
					for _, s := range storesTo(al) {
						if why := cx.freshValue(s.Val, depth+1); why != "" {
							return why
						}
					}
					continue
				}
			}
			if why := cx.freshValue(b, depth+1); why != "" {
				return why
			}
		}
		return ""
	case *ssa.Parameter:
		fn := x.Parent()
		if depth > c12MaxDepth {
			return "helper chain too deep"
		}
		if fn.Parent() == nil && (fn.Synthetic != "" || token.IsExported(fn.Name())) {
			return "the object is a parameter of " + FuncKey(fn) + ", which anyone may call"
		}
		if len(ix.valueUse[fn]) > 0 || len(ix.makers[fn]) > 0 && fn.Parent() == nil {
			return FuncKey(fn) + " is used as a value"
		}
		if fn.Parent() == nil && fn.Signature.Recv() != nil && len(cx.p.InvokeSites(fn)) > 0 {
			return FuncKey(fn) + " can be reached through an interface"
		}
		callers := ix.callers[fn]
		if len(callers) == 0 {
			return "the object is a parameter of " + FuncKey(fn) + ", which has no static caller"
		}
		if fn.Parent() == nil {
			if all := cx.p.StaticCallers(fn); len(all) != len(callers) {
				return FuncKey(fn) + " is also called from outside the package"
			}
		}
		pi := -1
		for i, q := range fn.Params {
			if q == x {
				pi = i
			}
		}
		for _, c := range callers {
			cc := c.Common()
			if cc.IsInvoke() || pi < 0 || pi >= len(cc.Args) {
				return "call of " + FuncKey(fn) + " not followed"
			}
			if why := cx.freshValue(cc.Args[pi], depth+1); why != "" {
				return "called from " + FuncKey(c.Fn) + ": " + why
			}
		}
		return ""
	}
	// the result of a function of the package that hands back an object it allocated
	if call, idx := c12CallOf(v); call != nil && depth <= c12MaxDepth {
		if g := call.Call.StaticCallee(); g != nil && g.Blocks != nil && g.Pkg != nil && RelPkg(g.Pkg.Pkg) == c12Rel {
			rets := Returns(g)
			for _, ri := range rets {
				if idx >= len(ri.Results) {
					return "result of " + FuncKey(g) + " not followed"
				}
				if IsNilConst(ri.Results[idx]) {
					continue
				}
				if why := cx.freshValue(ri.Results[idx], depth+1); why != "" {
					return "returned by " + FuncKey(g) + ": " + why
				}
			}
			if len(rets) > 0 {
				return ""
			}
		}
	}
	return "the object is not one this function (or the callers of this helper) allocated"
}

// c12Append is one `x = append(x, elem)` that builds the slice which ends up in
// a replica field: directly on the field, or on a local slice that is later
// stored into the field (possibly returned from a helper first).
type c12Append struct {
	call  *ssa.Call
	loop  *c12Loop
	final ssa.Instruction // the store installing a locally built slice into the field (nil: appended in place)
}

func (sc *c12Scope) appendChains(rep int) []c12Append {
	var out []c12Append
	isAppend := func(v ssa.Value) *ssa.Call {
		call, ok := v.(*ssa.Call)
		if !ok || !c12Builtin(CallSite{call.Parent(), call}, "append") || len(call.Call.Args) != 2 {
			return nil
		}
		return call
	}
	for _, st := range sc.fieldStores(rep) {
		// in place: sto.f = append(sto.f, x)
		if call := isAppend(st.Val); call != nil && sc.isFieldLoad(call.Call.Args[0], rep) {
			out = append(out, c12Append{call, c12InnermostLoop(st.Block()), nil})
			continue
		}
		// a locally built slice: follow the stored value back to the loop-carried
		// `s = append(s, x)` it is the final value of
		seen := map[ssa.Value]bool{}
		var walk func(v ssa.Value, depth int)
		walk = func(v ssa.Value, depth int) {
			if v == nil || seen[v] || depth > 12 {
				return
			}
			seen[v] = true
			v2 := sc.res(v)
			if v2 != v {
				walk(v2, depth+1)
				return
			}
			switch x := v.(type) {
			case *ssa.Phi:
				for _, e := range x.Edges {
					walk(e, depth+1)
				}
			case *ssa.Extract:
				if c, ok := x.Tuple.(*ssa.Call); ok {
					if g := sc.calleeIn(c); g != nil {
						for _, ri := range Returns(g) {
							if x.Index < len(ri.Results) {
								walk(ri.Results[x.Index], depth+1)
							}
						}
					}
				}
			case *ssa.Call:
				if call := isAppend(x); call != nil {
					// the slice appended to must be the same loop-carried variable
					carried := false
					var back func(a ssa.Value, d int)
					back = func(a ssa.Value, d int) {
						if d > 6 {
							return
						}
						if a == ssa.Value(call) {
							carried = true
							return
						}
						if ph, ok := a.(*ssa.Phi); ok {
							for _, e := range ph.Edges {
								if e != a {
									back(e, d+1)
								}
							}
						}
					}
					back(call.Call.Args[0], 0)
					if carried {
						out = append(out, c12Append{call, c12InnermostLoop(call.Block()), st})
					}
					return
				}
				if g := sc.calleeIn(x); g != nil && x.Call.Signature().Results().Len() == 1 {
					for _, ri := range Returns(g) {
						if len(ri.Results) == 1 {
							walk(ri.Results[0], depth+1)
						}
					}
				}
			}
		}
		walk(st.Val, 0)
	}
	return out
}

// c12AppendedValues returns the element values of the variadic argument of
// append(s, x, y...) (go/ssa spills them into a fresh array), or the argument
// itself for append(s, t...).
func c12AppendedValues(arg ssa.Value) []ssa.Value {
	sl, ok := arg.(*ssa.Slice)
	if !ok {
		return []ssa.Value{arg}
	}
	al, ok := sl.X.(*ssa.Alloc)
	if !ok || al.Referrers() == nil {
		return []ssa.Value{arg}
	}
	var out []ssa.Value
	for _, r := range *al.Referrers() {
		if ia, ok := r.(*ssa.IndexAddr); ok && ia.Referrers() != nil {
			for _, rr := range *ia.Referrers() {
				if st, ok := rr.(*ssa.Store); ok && st.Addr == ssa.Value(ia) {
					out = append(out, st.Val)
				}
			}
		}
	}
	return out
}
