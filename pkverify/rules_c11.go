package main

import (
	"fmt"
	"go/constant"
	"go/token"
	"go/types"
	"os"
	"sort"
	"strings"
	"time"

	"golang.org/x/tools/go/ssa"
)

// C11 — the encrypting store never hands plaintext (or names derived from it) to
// the wrapped stores, and what it returns was authenticated.
//
// X-taint is decided with a small package-local information-flow graph
// (c11Flow): nodes are SSA values, struct fields of the package's own struct
// types (field-based), and per-function result slots; edges say "data may flow
// from A to B". Labels are computed by reachability:
//
//	P  plaintext handed in through the storage API (every non-context parameter of the
//	   exported methods of the storage type: the blob reader, plaintext refs) and keys
//	   read back from the meta index (they are plaintext refs);
//	D  output of age.Decrypt;
//	E  an object age.Encrypt was asked to write ciphertext into;
//	W  the wrapped stores themselves (loads of the storage fields whose type is a blob
//	   store), propagated along value-identity edges only.
//
// A sink is any call that is not analysed inside the package and has a W-labelled
// receiver or argument; every other data argument of a sink is an obligation.

const c11Rel = "pkg/blobserver/encrypt"

func init() {
	register(&PropSpec{
		ID:    "C11",
		Title: "The encrypting store leaks no plaintext, detects tampering, and is recoverable",
		Explanation: "Decided (structural necessary conditions, package pkg/blobserver/encrypt): " +
			"HOW SITES ARE FOUND (all rules) — anchors are resolved by role, never by the name of an internal helper: Fetch is the storage type's blob.Fetcher method; the encrypt/decrypt helper is found by walking up from the package's single age.Encrypt/age.Decrypt call through only-callers and taking the outermost of the unbroken run of functions that have both the ciphertext and the plaintext buffer as parameters; the compaction function is the function whose effective body holds a removal from a wrapped store and an upload (not one running in a goroutine it starts) to the same store and which itself builds what it uploads - while the uploaded buffer or the plaintext encrypted into it is a parameter (the second half of a split function), its callers are taken instead; a constructor is a function that returns a storage it (or a helper) allocated and is not merely a helper of another package function; the scan function is the function the constructor calls that (transitively) enumerates a wrapped store with a callback; the process function is the innermost function (method, function or function literal bound to a local) called from the scan function's effective body whose own effective body both calls the decrypt helper and writes the meta index. A site 'in function F' is looked for in F's EFFECTIVE BODY: F plus, transitively (depth 4), the package functions, methods and function literals F calls statically (go/defer/callback links are followed for finding sites but never count for ordering); a parameter of a helper stands for the caller's argument, the result of a helper call for what the helper returns on its success returns. Ordering facts are carried across calls: a call of helper H counts as 'P happened' at a site if the call precedes the site and every exit of H that is compatible with what is known about H's results at the site (error known nil; a boolean result known true/false; H returning the tested boolean itself) has P behind it, recursively; a success return that just forwards the outcome of a helper call (tail call) is judged at the helper's own success exits; 'after a failed X' follows the branches that test X's error on the failure side only, and continues in the caller of a helper only through exits that report the failure (non-nil error or constant false) which the caller tests. " +
			"X-taint — explicit information flow, package-wide and flow-insensitive: no value derived from the plaintext handed in through the storage API (the ReceiveBlob reader, plaintext blobrefs of ReceiveBlob/Fetch/StatBlobs/RemoveBlobs/EnumerateBlobs), from keys of the meta index (plaintext refs) or from the output of age.Decrypt reaches any argument of any call that is given one of the wrapped stores (a method call on storage.blobs/storage.meta or a helper such as blobserver.ReceiveNoHash/EnumerateAll taking one); the only declassifier is the writer returned by age.Encrypt; every reader/byte-slice handed to a wrapped store, and the blobref it is stored under, derive from a buffer age.Encrypt wrote into, and that blobref is computed (blob.RefFromBytes, possibly inside a package helper that is handed the buffer; through forwarding helpers that take ref and bytes, at their callers) from the very buffer that is uploaded (buffers are identified by their allocation, the call that returned them or the bytes.NewBuffer/NewBufferString call that made them from nothing, seen through Bytes/NewReader-style views); the value half of every meta-index row (size/encrypted-ref, later used as the name fetched from the wrapped store) does not derive from API plaintext; every age.Encrypt/age.Decrypt call is keyed from the one identity field of the storage struct. " +
			"X-fetch — every success return of Fetch (or, for a tail call, of the helper whose outcome Fetch returns) has behind it HashMatches()==true of the ref that was fetched from the wrapped store (the read may sit in a helper) against a hash fed (before the comparison) from the reader the wrapped store returned, and a successful call of the decrypt helper on a buffer fed by that same copy; the returned reader is the decrypt output and the returned size derives from the same index look-up (keyed from the requested ref) as the fetched ref and from no wrapped-store call; the decrypt helper returns nil only after the version byte compared equal to the constant the encrypt side writes (the comparison may sit in a helper of the decrypt helper or, when the decrypt helper was split off below it, at every call site of the decrypt helper; likewise the write of the constant on the encrypt side), age.Decrypt succeeded and the copy of its output succeeded; the encrypt helper returns nil only after the copy into the age writer and its Close succeeded. " +
			"X-compact — seen from the compaction function, the removal of the small meta blobs has behind it the success of the upload of the packed meta blob to the same store, which has behind it a successful call of the encrypt helper into the uploaded buffer, and the removal cannot execute after a failed index look-up of a row that goes into the packed plaintext (look-up, upload, encryption and removal may each sit in helpers; a helper containing the look-up must report the failure to its caller); what is removed is one parameter of the compaction function and the packed plaintext is fed from exactly one other ref-list parameter, and at every call site of the compaction function those two arguments are lock-step accumulators (per record one append of its row list and one append of its own ref, from the same record, in the same block - also inside a helper that takes and returns both lists; reset together; merged by phis edge by edge; a call site that merely forwards two parameters of its own function - a wrapper around the go statement - is judged at every caller of that function), so the deleted meta blobs are exactly the records whose rows were handed in for packing; the restart path exists: every constructor returns a store only after the scan function succeeded on it; the callback of the enumeration of the meta store (its effective body, goroutines and helpers included) fetches every enumerated ref from that store; the bytes handed to the process function flow from that fetch and every path after a failed process call ends the scan function with a non-nil error; the process function succeeds only after a successful call of the decrypt helper and after the first decrypted line compared equal to a constant header, writes (in a loop) index rows computed from the decrypted text, and every path after a failed index write ends it with a non-nil error; the header constant equals a prefix of a constant written into the plaintext of every encrypt-helper call whose ciphertext is uploaded to the meta store. " +
			"X-index — the recoverability invariant 'the local index never knows more than the meta store durably records' (which is also what makes the duplicate short-cut at the top of ReceiveBlob and stat/enumerate sound): who-may-write enumeration of every sorted.KeyValue.Set in the package (the index handle is shown never to leave the package other than as the receiver of KeyValue methods); each write must be either REPLAYED — the row is computed only (backward slice, all leaves) from the plaintext buffer of a decrypt-helper call (in the writer's effective body) whose ciphertext is only a parameter that every caller in the package feeds from a reader the meta store returned for a fetch (a caller that does not is judged as a writer itself) — or DURABLE-FIRST — the write has behind it the success of an upload into the meta store (the store the start-up scan enumerates; the upload may sit in helpers, which must report its failure) whose content is the ciphertext of an encrypt-helper call into whose plaintext every blob.Ref the row is computed from flows, and that meta upload has behind it the success of the upload, into the blobs store (the store Fetch reads), of the ciphertext stored under the encrypted ref the row's value is computed from (both uploads may sit in one helper). A write inside a helper or function literal is judged at every call site (bounded depth 3, row translated through the parameters); a deferred write at every run-defers point it reaches, a write started with go at the go statement; a write in a callback or an API method that is not covered where it stands is a violation. " +
			"NOT decided: implicit flows (control dependence, timing, sizes: integer, float and boolean values other than bytes are treated as carrying no plaintext, and the size half of a row is not compared between index and meta blob), confidentiality/authenticity of age itself, what external helpers do with their arguments beyond 'results and mutable arguments depend on all arguments', which field of a decrypted meta line ends up as the encrypted ref (the index is trusted to return what was stored), that tampering is detected for any concrete byte flip, that every metaBlob record pairs a meta blob's ref with exactly the rows that blob holds (construction sites of the records are not checked, nor that the packer writes every element of its row list), index Delete/Wipe and batch writes (batch operations are reported undecided by X-taint's flow model), rows left in a persistent index by an earlier process (a crash of an older, differently ordered version; meta blobs removed behind the store's back), recoverability outcomes for any concrete history. Shapes the analysis does not follow and reports instead of passing: helpers nested deeper than 4, recursive helpers, a helper that reports failure other than by a non-nil error or a constant false (e.g. through a field or a phi of booleans), a failure parked in a variable and tested after a loop (paths are not correlated), a scan function that decrypts the meta blobs itself instead of calling a per-blob function (undecided), more than one age.Encrypt/age.Decrypt call site (undecided).",
		RuleDocs: map[string]string{
			"X-taint":   "information-flow graph over package encrypt: every data argument of every call that receives storage.blobs/storage.meta (sinks), every value written to the meta index, every age.Encrypt/Decrypt key: no flow from API plaintext / index keys / decrypt output; uploaded bytes and their refs derive from an age.Encrypt target buffer, the ref (followed into helpers, and through forwarding helpers to their callers) from the uploaded buffer",
			"X-fetch":   "ordering facts over the effective bodies of the Fetch method, the decrypt helper and the encrypt helper (helpers followed, facts carried across calls, tail calls judged at the helper's success exits): success returns have the ciphertext hash comparison over the bytes read and authenticated decryption behind them; size and reader provenance; version byte agreement",
			"X-compact": "ordering facts over the effective body of the compaction function (upload success before RemoveBlobs; nothing after a failed index look-up reaches the removal), the compaction function is lifted to the callers while its plaintext/upload buffer is handed in, removed list and packed rows are two parameters built in lock-step from the same records at every call site (forwarding wrappers judged at their callers), restart path from every constructor through the scan function and the process function to index.Set (all found by role, helpers/goroutines/methods followed), header-constant agreement between the meta writers and the parser",
			"X-index":   "who-may-write over every sorted.KeyValue.Set in package encrypt: each index row is either replayed only from decrypted bytes that every caller fetched from the meta store, or written after the success of the meta-store upload of ciphertext computed from the row's refs, itself after the success of the blobs-store upload of the ciphertext the row names; uploads and decryption found in effective bodies, helpers/literals holding the write judged at their call sites, deferred writes at every run-defers point; the index handle does not escape",
		},
		Run:       runC11,
		DesignRef: "DESIGN.md §4 C11",
		Technique: "static analysis: package-local explicit information-flow (taint) graph over go/ssa with field-based struct locations and parameter/result binding, plus interprocedural dominance rules over effective bodies (call chains with parameter->argument and result->return mapping, success/boolean-outcome summaries of helpers, tail-call expansion of success exits, failure-path reachability across helper returns), role-based anchor resolution, a who-may-write enumeration with backward value slices and call-site lifting, lock-step accumulator matching over phis and through list-pair helpers, and constant-agreement rules",
		LevelText: "Decides structural necessary conditions only: no explicit data flow from plaintext (API reader and refs, index keys, decrypt output) into any argument handed to the wrapped stores except through age.Encrypt; uploaded names are hashes of the uploaded ciphertext buffer; Fetch returns only after the ciphertext digest check and authenticated decryption succeeded; compaction uploads before it deletes and deletes only the records whose rows it was handed; the restart scan is wired from the constructor to the index; and every index row is written either from bytes fetched from the meta store or only after the meta blob recording it (and before that the ciphertext it names) was stored successfully, so the index never runs ahead of what a rebuild from the wrapped stores would give. The conditions are stated over values and ordering, not over which function holds a statement: extracting helpers, splitting functions, turning closures into methods, inlining the small helpers and reshaping control flow leave the verdict unchanged as long as the helper reports failure to its caller. Does not decide cryptographic strength, implicit flows, tamper-detection outcomes, the contents of a persistent index inherited from an earlier process, or recoverability for any concrete history.",
	})
}

func runC11(p *Program, r *Reporter) {
	t0 := time.Now()
	defer func() {
		r.Note("C11 rules (graph construction + all queries) took %d ms after loading", time.Since(t0).Milliseconds())
	}()
	g := c11BuildFlow(p)
	r.Analysed("functions", len(g.fns))
	r.Analysed("flow_nodes", len(g.succ))
	r.Analysed("flow_edges", g.nEdges)
	c11RuleTaint(p, r, g)
	c11RuleFetch(p, r, g)
	c11RuleCompact(p, r, g)
	c11RuleIndex(p, r, g)
}

// ---------------------------------------------------------------------------
// Flow graph

type c11Loc struct {
	T *types.Named
	F int
}

type c11Ret struct {
	Fn *ssa.Function
	I  int
}

type c11EdgeKind uint8

const (
	c11Copy    c11EdgeKind = iota // value identity, forward
	c11CopyRev                    // value identity, backward (pointer-like values: writes through the copy reach the original)
	c11Derive                     // computed from / stored into
	c11Mutate                     // an external callee may write one argument's data into another mutable argument, or its result may wrap an argument
)

type c11Edge struct {
	to   any
	kind c11EdgeKind
}

type c11Source struct {
	node any
	what string
}

type c11Sink struct {
	c     CallSite
	store string // field name of the wrapped store
}

type c11Flow struct {
	p     *Program
	pkg   *types.Package
	fns   []*ssa.Function
	inPkg map[*ssa.Function]bool

	succ   map[any][]c11Edge
	nEdges int

	storeType   *types.Named      // the storage struct type
	storeFields map[c11Loc]string // wrapped-store fields
	keyField    c11Loc            // identity field
	srcP        []c11Source       // API plaintext + index keys
	srcD        []c11Source       // decrypt output
	srcE        []c11Source       // encrypt targets
	encCalls    []CallSite        // age.Encrypt
	decCalls    []CallSite        // age.Decrypt
	indexSets   []CallSite        // sorted.KeyValue.Set
	extCalls    []CallSite        // calls not analysed in the package
	problems    []string          // constructs the graph cannot model (=> undecided)
	problemPos  []token.Pos
	reachP      map[any]any // node -> parent
	reachD      map[any]any
	reachE      map[any]any
	reachW      map[string]map[any]any // per store field
	kvIface     *types.Interface
	rolesDone   bool
	rolesOK     bool
	rolesV      c11Roles
	extSet      map[ssa.CallInstruction]bool
	iterIface   *types.Interface
	readerIface *types.Interface
}

func c11Carrier(t types.Type) bool {
	if t == nil {
		return false
	}
	if c11IsContext(t) {
		return false
	}
	switch u := t.Underlying().(type) {
	case *types.Basic:
		if u.Info()&types.IsString != 0 || u.Kind() == types.UnsafePointer {
			return true
		}
		return u.Kind() == types.Uint8 // bytes carry content; other numbers, bools: sizes/counts/flags
	case *types.Signature:
		return false
	case *types.Tuple:
		return u.Len() > 0
	}
	return true
}

func c11IsContext(t types.Type) bool {
	if pt, ok := t.(*types.Pointer); ok {
		t = pt.Elem()
	}
	n, ok := t.(*types.Named)
	return ok && n.Obj().Pkg() != nil && n.Obj().Pkg().Path() == "context" && n.Obj().Name() == "Context"
}

// c11Objecty: values through which a callee or a later writer can modify data
// that other holders of the value observe.
func c11Objecty(t types.Type) bool {
	if t == nil || c11IsContext(t) || isErrorType(t) {
		return false
	}
	switch u := t.Underlying().(type) {
	case *types.Pointer, *types.Slice, *types.Map, *types.Chan:
		return true
	case *types.Interface:
		return true
	case *types.Tuple:
		for i := 0; i < u.Len(); i++ {
			if c11Objecty(u.At(i).Type()) {
				return true
			}
		}
	}
	return false
}

func (g *c11Flow) localStruct(t types.Type) *types.Named {
	n := NamedOf(t)
	if n == nil || n.Obj().Pkg() != g.pkg {
		return nil
	}
	if _, ok := n.Underlying().(*types.Struct); !ok {
		return nil
	}
	return n
}

// node canonicalises a value: address arithmetic and identity conversions
// collapse onto their base object, fields of the package's own structs become
// field-based locations, free variables become the captured cell.
func (g *c11Flow) node(v ssa.Value) any {
	if v == nil || !c11Carrier(v.Type()) {
		return nil
	}
	for i := 0; i < 64; i++ {
		switch x := v.(type) {
		case *ssa.Const, *ssa.Builtin, *ssa.Function:
			return nil
		case *ssa.FieldAddr:
			if n := g.localStruct(x.X.Type()); n != nil {
				return c11Loc{n, x.Field}
			}
			v = x.X
			continue
		case *ssa.Field:
			if n := g.localStruct(x.X.Type()); n != nil {
				return c11Loc{n, x.Field}
			}
			v = x.X
			continue
		case *ssa.IndexAddr:
			v = x.X
			continue
		case *ssa.Index:
			v = x.X
			continue
		case *ssa.Slice:
			v = x.X
			continue
		case *ssa.ChangeType:
			v = x.X
			continue
		case *ssa.MakeInterface:
			v = x.X
			continue
		case *ssa.ChangeInterface:
			v = x.X
			continue
		case *ssa.Convert:
			v = x.X
			continue
		case *ssa.MultiConvert:
			v = x.X
			continue
		case *ssa.SliceToArrayPointer:
			v = x.X
			continue
		case *ssa.TypeAssert:
			v = x.X
			continue
		case *ssa.Range:
			v = x.X
			continue
		case *ssa.Next:
			v = x.Iter
			continue
		case *ssa.Extract:
			if _, isCall := x.Tuple.(*ssa.Call); !isCall {
				v = x.Tuple
				continue
			}
		case *ssa.FreeVar:
			if b := bindingOf(x); b != nil {
				v = b
				continue
			}
		}
		break
	}
	if _, ok := v.(*ssa.Const); ok {
		return nil
	}
	return v
}

func (g *c11Flow) edge(from, to any, kind c11EdgeKind) {
	if from == nil || to == nil || from == to {
		return
	}
	for _, e := range g.succ[from] {
		if e.to == to && e.kind == kind {
			return
		}
	}
	g.succ[from] = append(g.succ[from], c11Edge{to, kind})
	if _, ok := g.succ[to]; !ok {
		g.succ[to] = nil
	}
	g.nEdges++
}

// flow adds from -> to; for pointer-like values also the reverse (aliasing:
// what is written through the copy is seen through the original).
func (g *c11Flow) flow(from, to any, copy bool, t types.Type) {
	if copy {
		g.edge(from, to, c11Copy)
		if c11Objecty(t) && g.nodeObjecty(from) {
			g.edge(to, from, c11CopyRev)
		}
		return
	}
	g.edge(from, to, c11Derive)
}

// nodeObjecty: the canonical node denotes a mutable object (an interface made
// from a struct value, e.g. any(blob.Ref), is a copy and is not).
func (g *c11Flow) nodeObjecty(n any) bool {
	switch x := n.(type) {
	case c11Loc:
		return c11Objecty(x.T.Underlying().(*types.Struct).Field(x.F).Type())
	case c11Ret:
		res := x.Fn.Signature.Results()
		return x.I < res.Len() && c11Objecty(res.At(x.I).Type())
	case ssa.Value:
		return c11Objecty(x.Type())
	}
	return false
}

// obj: v is a pointer-like value whose canonical node is a mutable object.
func (g *c11Flow) obj(v ssa.Value) bool {
	if v == nil || !c11Objecty(v.Type()) {
		return false
	}
	return g.nodeObjecty(g.node(v))
}

func (g *c11Flow) problem(pos token.Pos, format string, args ...any) {
	g.problems = append(g.problems, fmt.Sprintf(format, args...))
	g.problemPos = append(g.problemPos, pos)
}

func c11BuildFlow(p *Program) *c11Flow {
	g := &c11Flow{p: p, pkg: p.Pkg(c11Rel).Types, inPkg: map[*ssa.Function]bool{}, succ: map[any][]c11Edge{},
		storeFields: map[c11Loc]string{}, reachW: map[string]map[any]any{}}
	g.fns = p.FuncsIn(c11Rel)
	for _, f := range g.fns {
		g.inPkg[f] = true
	}
	g.kvIface = p.Iface("pkg/sorted", "KeyValue")
	g.iterIface = p.Iface("pkg/sorted", "Iterator")
	if io := p.ByPath["io"]; io != nil {
		if tn, ok := io.Types.Scope().Lookup("Reader").(*types.TypeName); ok {
			g.readerIface, _ = tn.Type().Underlying().(*types.Interface)
		}
	}
	if g.readerIface == nil {
		brokenf("anchor unresolved: io.Reader")
	}

	// Roles: the storage type = the package's implementer of blobserver.BlobReceiver
	// (and blob.Fetcher); its wrapped-store fields = fields whose type is itself a blob store.
	recvIface := p.Iface("pkg/blobserver", "BlobReceiver")
	fetchIface := p.Iface("pkg/blob", "Fetcher")
	for _, n := range p.Implementers(recvIface, true) {
		if n.Obj().Pkg() != g.pkg {
			continue
		}
		if !(types.Implements(types.NewPointer(n), fetchIface) || types.Implements(n, fetchIface)) {
			continue
		}
		if g.storeType != nil {
			brokenf("anchor ambiguous: two storage types in %s (%s, %s)", c11Rel, g.storeType.Obj().Name(), n.Obj().Name())
		}
		g.storeType = n
	}
	if g.storeType == nil {
		brokenf("anchor unresolved: no type in %s implements blobserver.BlobReceiver and blob.Fetcher", c11Rel)
	}
	st, _ := g.storeType.Underlying().(*types.Struct)
	if st == nil {
		brokenf("anchor unresolved: %s.%s is not a struct", c11Rel, g.storeType.Obj().Name())
	}
	nKey := 0
	for i := 0; i < st.NumFields(); i++ {
		ft := st.Field(i).Type()
		if types.Implements(ft, recvIface) || types.Implements(ft, fetchIface) {
			g.storeFields[c11Loc{g.storeType, i}] = st.Field(i).Name()
		}
		if IsNamed(ft, "filippo.io/age", "X25519Identity") {
			g.keyField = c11Loc{g.storeType, i}
			nKey++
		}
	}
	if len(g.storeFields) == 0 {
		brokenf("anchor unresolved: %s has no field holding a wrapped blob store", g.storeType.Obj().Name())
	}
	if nKey != 1 {
		brokenf("anchor unresolved: %s has %d age identity fields, want exactly 1", g.storeType.Obj().Name(), nKey)
	}

	// P sources: parameters of the exported methods of the storage type.
	for _, fn := range g.fns {
		if fn.Parent() != nil || fn.Signature.Recv() == nil || NamedOf(fn.Signature.Recv().Type()) != g.storeType {
			continue
		}
		if !token.IsExported(fn.Name()) {
			continue
		}
		for _, prm := range fn.Params[1:] {
			if n := g.node(prm); n != nil {
				g.srcP = append(g.srcP, c11Source{n, fmt.Sprintf("parameter %s of API method %s", prm.Name(), fn.Name())})
			}
		}
	}

	for _, fn := range g.fns {
		for _, b := range fn.Blocks {
			for _, in := range b.Instrs {
				g.instr(fn, in)
			}
		}
	}

	all := map[c11EdgeKind]bool{c11Copy: true, c11CopyRev: true, c11Derive: true, c11Mutate: true}
	g.reachP = g.reach(g.srcP, all)
	g.reachD = g.reach(g.srcD, all)
	// "is ciphertext" is positive evidence: only value derivation counts, not what an external callee might have copied around
	g.reachE = g.reach(g.srcE, map[c11EdgeKind]bool{c11Copy: true, c11CopyRev: true, c11Derive: true})
	for loc, name := range g.storeFields {
		g.reachW[name] = g.reach([]c11Source{{loc, "field " + name}}, map[c11EdgeKind]bool{c11Copy: true})
	}
	if os.Getenv("C11_DEBUG") != "" {
		g.debugDump()
	}
	return g
}

func (g *c11Flow) instr(fn *ssa.Function, in ssa.Instruction) {
	switch x := in.(type) {
	case *ssa.Store:
		g.flow(g.node(x.Val), g.node(x.Addr), true, x.Val.Type())
		// whole-struct store of a package struct: its fields are field-based locations
		if n := g.localStruct(x.Val.Type()); n != nil {
			if _, isPtr := x.Val.Type().(*types.Pointer); !isPtr {
				st := n.Underlying().(*types.Struct)
				for i := 0; i < st.NumFields(); i++ {
					g.edge(g.node(x.Val), c11Loc{n, i}, c11Derive)
				}
			}
		}
	case *ssa.UnOp:
		switch x.Op {
		case token.MUL:
			g.flow(g.node(x.X), g.node(x), true, x.Type())
			if n := g.localStruct(x.Type()); n != nil {
				if _, isPtr := x.Type().(*types.Pointer); !isPtr {
					st := n.Underlying().(*types.Struct)
					for i := 0; i < st.NumFields(); i++ {
						g.edge(c11Loc{n, i}, g.node(x), c11Derive)
					}
				}
			}
		case token.ARROW:
			g.edge(g.node(x.X), g.node(x), c11Derive)
		default:
			g.edge(g.node(x.X), g.node(x), c11Derive)
		}
	case *ssa.BinOp:
		g.edge(g.node(x.X), g.node(x), c11Derive)
		g.edge(g.node(x.Y), g.node(x), c11Derive)
	case *ssa.Phi:
		for _, e := range x.Edges {
			g.flow(g.node(e), g.node(x), true, x.Type())
		}
	case *ssa.Send:
		g.edge(g.node(x.X), g.node(x.Chan), c11Derive)
	case *ssa.MapUpdate:
		g.edge(g.node(x.Key), g.node(x.Map), c11Derive)
		g.edge(g.node(x.Value), g.node(x.Map), c11Derive)
	case *ssa.Lookup:
		g.edge(g.node(x.X), g.node(x), c11Derive)
	case *ssa.Select:
		for _, s := range x.States {
			if s.Dir == types.SendOnly {
				g.edge(g.node(s.Send), g.node(s.Chan), c11Derive)
			} else {
				g.edge(g.node(s.Chan), g.node(x), c11Derive)
			}
		}
	case *ssa.Extract:
		call, ok := x.Tuple.(*ssa.Call)
		if !ok {
			return // aliased onto the tuple by node()
		}
		cs := CallSite{fn, call}
		if callee := cs.Callee(); callee != nil && g.inPkg[callee] {
			g.flow(c11Ret{callee, x.Index}, g.node(x), true, x.Type())
			return
		}
		if g.modelled(cs) {
			return
		}
		g.edge(g.node(call), g.node(x), c11Derive)
		if c11Objecty(x.Type()) {
			g.edge(g.node(x), g.node(call), c11Mutate)
		}
	case *ssa.Return:
		for i, res := range x.Results {
			g.flow(g.node(res), c11Ret{fn, i}, true, res.Type())
		}
	case ssa.CallInstruction:
		g.call(CallSite{fn, x})
	}
}

// modelled reports whether the call has a hand-written transfer function
// (no generic edges are added for it).
func (g *c11Flow) modelled(c CallSite) bool {
	if c.IsStatic("filippo.io/age", "", "Encrypt") || c.IsStatic("filippo.io/age", "", "Decrypt") {
		return true
	}
	if rt := c.RecvType(); rt != nil {
		if c11Implements(rt, g.kvIface) || c11Implements(rt, g.iterIface) {
			return true
		}
	}
	return false
}

func c11Implements(t types.Type, iface *types.Interface) bool {
	if types.Implements(t, iface) {
		return true
	}
	if _, ok := t.(*types.Pointer); !ok {
		if _, isIface := t.Underlying().(*types.Interface); !isIface {
			return types.Implements(types.NewPointer(t), iface)
		}
	}
	return false
}

func (g *c11Flow) call(c CallSite) {
	cc := c.Common()
	args := c.Args()
	var res ssa.Value
	if v := c.Value(); v != nil {
		res = v
	}
	if b, ok := cc.Value.(*ssa.Builtin); ok {
		switch b.Name() {
		case "len", "cap", "close", "delete", "print", "println", "recover", "panic", "min", "max", "clear":
			return
		}
	}
	if callee := c.Callee(); callee != nil && g.inPkg[callee] {
		if len(args) != len(callee.Params) {
			g.problem(c.Pos(), "%s: call of %s with %d arguments for %d parameters", FuncKey(c.Fn), FuncKey(callee), len(args), len(callee.Params))
			return
		}
		for i, a := range args {
			g.flow(g.node(a), g.node(callee.Params[i]), true, callee.Params[i].Type())
		}
		if res != nil {
			if _, multi := res.Type().(*types.Tuple); !multi {
				g.flow(c11Ret{callee, 0}, g.node(res), true, res.Type())
			}
		}
		return
	}
	g.extCalls = append(g.extCalls, c)

	// hand-written models
	switch {
	case c.IsStatic("filippo.io/age", "", "Encrypt"):
		g.encCalls = append(g.encCalls, c)
		if n := g.node(args[0]); n != nil {
			g.srcE = append(g.srcE, c11Source{n, "destination of age.Encrypt in " + FuncKey(c.Fn)})
		}
		return
	case c.IsStatic("filippo.io/age", "", "Decrypt"):
		g.decCalls = append(g.decCalls, c)
		if v := c.Value(); v != nil {
			if out := ResultValue(v, 0); out != nil {
				g.srcD = append(g.srcD, c11Source{g.node(out), "output of age.Decrypt in " + FuncKey(c.Fn)})
			}
		}
		return
	}
	if rt := c.RecvType(); rt != nil && c11Implements(rt, g.kvIface) {
		switch c.MethodName() {
		case "Get", "Find", "Delete", "Close", "Wipe":
			// trusted declassifier: what comes out of the index is what X-taint let in (see Set)
		case "Set":
			g.indexSets = append(g.indexSets, c)
		default:
			g.problem(c.Pos(), "%s: unmodelled meta-index operation %s", FuncKey(c.Fn), c.MethodName())
		}
		return
	}
	if rt := c.RecvType(); rt != nil && c11Implements(rt, g.iterIface) {
		switch c.MethodName() {
		case "Key", "KeyBytes":
			if res != nil {
				g.srcP = append(g.srcP, c11Source{g.node(res), "key read from the meta index (a plaintext ref) in " + FuncKey(c.Fn)})
			}
		case "Value", "ValueBytes", "Next", "Close":
		default:
			g.problem(c.Pos(), "%s: unmodelled index iterator operation %s", FuncKey(c.Fn), c.MethodName())
		}
		return
	}

	// generic external / dynamic call
	rn := g.node(res)
	for i, a := range args {
		an := g.node(a)
		g.edge(an, rn, c11Derive)
		for j, b := range args {
			if i != j && g.obj(b) {
				g.edge(an, g.node(b), c11Mutate)
			}
		}
		if res != nil && c11Objecty(res.Type()) && g.obj(a) {
			g.edge(rn, an, c11Mutate)
		}
		// an external callee may read the fields of a package struct it is handed
		if n := g.localStruct(a.Type()); n != nil {
			st := n.Underlying().(*types.Struct)
			for f := 0; f < st.NumFields(); f++ {
				g.edge(c11Loc{n, f}, an, c11Derive)
			}
		}
		// a literal handed to an external callee is called with values the callee derives from its other arguments
		if mc, ok := originValue(a).(*ssa.MakeClosure); ok {
			if lit, ok := mc.Fn.(*ssa.Function); ok && g.inPkg[lit] {
				for _, prm := range lit.Params {
					for j, b := range args {
						if j != i {
							g.edge(g.node(b), g.node(prm), c11Derive)
						}
					}
				}
			}
		}
	}
}

func (g *c11Flow) reach(srcs []c11Source, kinds map[c11EdgeKind]bool) map[any]any {
	parent := map[any]any{}
	var queue []any
	for _, s := range srcs {
		if s.node == nil {
			continue
		}
		if _, ok := parent[s.node]; !ok {
			parent[s.node] = c11Source{s.node, s.what}
			queue = append(queue, s.node)
		}
	}
	for len(queue) > 0 {
		n := queue[0]
		queue = queue[1:]
		for _, e := range g.succ[n] {
			if !kinds[e.kind] {
				continue
			}
			if _, ok := parent[e.to]; ok {
				continue
			}
			parent[e.to] = n
			queue = append(queue, e.to)
		}
	}
	return parent
}

// witness renders the flow path from a source to node n.
func (g *c11Flow) witness(reach map[any]any, n any) string {
	var path []string
	for i := 0; i < 200; i++ {
		par, ok := reach[n]
		if !ok {
			break
		}
		if src, isSrc := par.(c11Source); isSrc {
			path = append(path, g.nodeName(n)+" = "+src.what)
			break
		}
		path = append(path, g.nodeName(n))
		n = par
	}
	// reverse
	for i, j := 0, len(path)-1; i < j; i, j = i+1, j-1 {
		path[i], path[j] = path[j], path[i]
	}
	if len(path) > 14 {
		path = append(append(append([]string{}, path[:6]...), "..."), path[len(path)-7:]...)
	}
	return strings.Join(path, " -> ")
}

func (g *c11Flow) nodeName(n any) string {
	switch x := n.(type) {
	case c11Loc:
		return "field " + x.T.Obj().Name() + "." + x.T.Underlying().(*types.Struct).Field(x.F).Name()
	case c11Ret:
		return fmt.Sprintf("result %d of %s", x.I, shortFn(x.Fn))
	case *ssa.Parameter:
		return "param " + x.Name() + " of " + shortFn(x.Parent())
	case *ssa.Alloc:
		name := x.Comment
		if name == "" {
			name = x.Name()
		}
		return "var " + name + " in " + shortFn(x.Parent())
	case *ssa.Call:
		return "call " + (CallSite{x.Parent(), x}).CalleeKey() + " in " + shortFn(x.Parent())
	case *ssa.Extract:
		if call, ok := x.Tuple.(*ssa.Call); ok {
			return fmt.Sprintf("result %d of call %s in %s", x.Index, (CallSite{call.Parent(), call}).CalleeKey(), shortFn(x.Parent()))
		}
	case *ssa.Global:
		return "global " + x.Name()
	case ssa.Value:
		if x.Parent() != nil {
			return fmt.Sprintf("%T in %s", x, shortFn(x.Parent()))
		}
		return x.Name()
	}
	return fmt.Sprint(n)
}

func shortFn(fn *ssa.Function) string {
	k := FuncKey(fn)
	return strings.TrimPrefix(k, c11Rel+".")
}

func (g *c11Flow) debugDump() {
	for _, fn := range g.fns {
		for _, b := range fn.Blocks {
			for _, in := range b.Instrs {
				v, ok := in.(ssa.Value)
				if !ok {
					continue
				}
				n := g.node(v)
				if n == nil {
					continue
				}
				l := g.labels(n)
				if os.Getenv("C11_WHY") == shortFn(fn)+":"+v.Name() {
					fmt.Fprintf(os.Stderr, "WHY P: %s\nWHY D: %s\nWHY E: %s\n", g.witness(g.reachP, n), g.witness(g.reachD, n), g.witness(g.reachE, n))
				}
				if l != "" {
					fmt.Fprintf(os.Stderr, "C11 %-40s %-6s %-6s = %s\n", shortFn(fn), l, v.Name(), in.String())
				}
			}
		}
		for _, prm := range fn.Params {
			if n := g.node(prm); n != nil {
				if l := g.labels(n); l != "" {
					fmt.Fprintf(os.Stderr, "C11 %-40s %-6s param %s\n", shortFn(fn), l, prm.Name())
				}
			}
		}
	}
	var locs []string
	for n := range g.succ {
		if l, ok := n.(c11Loc); ok {
			locs = append(locs, fmt.Sprintf("C11 LOC %-30s %s", g.nodeName(l), g.labels(l)))
		}
	}
	sort.Strings(locs)
	for _, s := range locs {
		fmt.Fprintln(os.Stderr, s)
	}
}

func (g *c11Flow) labels(n any) string {
	s := ""
	if _, ok := g.reachP[n]; ok {
		s += "P"
	}
	if _, ok := g.reachD[n]; ok {
		s += "D"
	}
	if _, ok := g.reachE[n]; ok {
		s += "E"
	}
	if g.wrappedStore(n) != "" {
		s += "W"
	}
	return s
}

// wrappedStore returns the name of the wrapped-store field node n may hold ("" if none).
func (g *c11Flow) wrappedStore(n any) string {
	if n == nil {
		return ""
	}
	var names []string
	for name, reach := range g.reachW {
		if _, ok := reach[n]; ok {
			names = append(names, name)
		}
	}
	sort.Strings(names)
	return strings.Join(names, "|")
}

// ---------------------------------------------------------------------------
// X-taint

func c11RuleTaint(p *Program, r *Reporter, g *c11Flow) {
	const rule = "X-taint"
	for i, pr := range g.problems {
		r.Undecided(rule, "flow-model#"+pr, p.Pos(g.problemPos[i]), "the information-flow model cannot follow this construct: "+pr)
	}
	refNamed := p.NamedType("pkg/blob", "Ref")
	isRef := func(t types.Type) bool {
		if sl, ok := t.Underlying().(*types.Slice); ok {
			t = sl.Elem()
		}
		return NamedOf(t) == refNamed
	}
	isContent := func(t types.Type) bool {
		if sl, ok := t.Underlying().(*types.Slice); ok {
			if b, ok := sl.Elem().Underlying().(*types.Basic); ok && b.Kind() == types.Uint8 {
				return true
			}
		}
		return c11Implements(t, g.readerIface)
	}

	// (a) sinks
	nSinks, nArgs := 0, 0
	// checkSink examines one sink call; actual[i] is the value to judge for argument i
	// (the sink's own argument, or the caller's argument when the sink sits in a
	// forwarding helper), store the wrapped store it is applied to.
	checkSink := func(c CallSite, where *ssa.Function, store, via string, actual []ssa.Value) {
		args := c.Args()
		nSinks++
		base := FuncKey(where) + "#" + store + ":" + c11CalleeName(c) + via
		site := p.Pos(c.Pos())
		contentIdx := -1
		for i, a := range args {
			if g.wrappedStore(g.node(a)) == "" && isContent(a.Type()) {
				contentIdx = i
			}
		}
		checked := 0
		for i, a := range args {
			if g.wrappedStore(g.node(a)) != "" {
				continue
			}
			if _, isFunc := a.Type().Underlying().(*types.Signature); isFunc {
				continue
			}
			if c11IsContext(a.Type()) {
				continue
			}
			n := g.node(actual[i])
			checked++
			nArgs++
			construct := base + "#" + c11ParamName(c, i)
			if n == nil {
				r.OKTable(rule, construct, site, "constant or size/flag argument: carries no content")
				continue
			}
			if _, bad := g.reachP[n]; bad {
				r.Violation(rule, construct, site, fmt.Sprintf("plaintext reaches the wrapped store %q: %s", store, g.witness(g.reachP, n)))
				continue
			}
			if _, bad := g.reachD[n]; bad {
				r.Violation(rule, construct, site, fmt.Sprintf("decrypted data reaches the wrapped store %q: %s", store, g.witness(g.reachD, n)))
				continue
			}
			_, hasE := g.reachE[n]
			needE := contentIdx >= 0 && (isContent(a.Type()) || isRef(a.Type()))
			if needE && !hasE {
				r.Violation(rule, construct, site, fmt.Sprintf("this call uploads content to the wrapped store %q but argument %s does not derive from a buffer age.Encrypt wrote into", store, c11ParamName(c, i)))
				continue
			}
			detail := "no flow from API plaintext, index keys or decrypt output reaches this argument"
			if hasE {
				detail += "; it derives from an age.Encrypt target (" + g.witness(g.reachE, n) + ")"
			}
			r.OK(rule, construct, site, detail)
		}
		if checked == 0 {
			r.OKTable(rule, base+"#no-data-args", site, "the call hands the wrapped store only a context and function values")
		}
		// the name an upload is stored under is the hash of the uploaded buffer
		if contentIdx >= 0 {
			for i, a := range args {
				if g.wrappedStore(g.node(a)) != "" || !isRef(a.Type()) {
					continue
				}
				construct := base + "#" + c11ParamName(c, i) + "=hash(uploaded)"
				ok, why := g.refOfSameBufferVia(where, actual[i], actual[contentIdx])
				r.Check(ok, rule, construct, site,
					"the ref is blob.RefFromBytes/RefFromString of bytes taken from the same buffer that is uploaded",
					"the ref the ciphertext is stored under is not computed from the uploaded buffer ("+why+"): Fetch's digest check against that name would fail or a different blob would be overwritten")
			}
		}
	}
	for _, c := range g.extCalls {
		args := c.Args()
		store := ""
		var storeArg ssa.Value
		for _, a := range args {
			if s := g.wrappedStore(g.node(a)); s != "" {
				store, storeArg = s, a
			}
		}
		if store == "" {
			continue
		}
		// forwarding helper: the store is a parameter of a top-level package function with callers in the
		// package => judge the arguments at each caller (transitively, bounded), where store and buffers
		// are not merged
		var lift func(fn *ssa.Function, storeArg ssa.Value, actual []ssa.Value, via string, depth int)
		lift = func(fn *ssa.Function, storeArg ssa.Value, actual []ssa.Value, via string, depth int) {
			wi := g.paramIndexOfNode(fn, g.node(storeArg))
			var callers []CallSite
			if wi >= 0 && fn.Parent() == nil && depth < c11MaxDepth {
				for _, f := range g.fns {
					for _, cc := range CallsIn(f, false) {
						if cc.Callee() == fn && len(cc.Args()) == len(fn.Params) && f != fn {
							callers = append(callers, cc)
						}
					}
				}
			}
			if len(callers) == 0 {
				checkSink(c, fn, g.wrappedStore(g.node(storeArg)), via, actual)
				return
			}
			for _, cc := range callers {
				if g.wrappedStore(g.node(cc.Args()[wi])) == "" {
					continue
				}
				up := make([]ssa.Value, len(actual))
				for i, a := range actual {
					up[i] = a
					if pi := g.paramIndexOfNode(fn, g.node(a)); pi >= 0 {
						up[i] = cc.Args()[pi]
					}
				}
				lift(cc.Fn, cc.Args()[wi], up, via+" via "+shortFn(fn), depth+1)
			}
		}
		lift(c.Fn, storeArg, args, "", 0)
	}
	// W values must not leave through constructs that lose their identity
	for _, fn := range g.fns {
		for _, b := range fn.Blocks {
			for _, in := range b.Instrs {
				var lost ssa.Value
				switch x := in.(type) {
				case *ssa.Send:
					lost = x.X
				case *ssa.MapUpdate:
					lost = x.Value
				}
				if lost != nil && g.wrappedStore(g.node(lost)) != "" {
					r.Undecided(rule, FuncKey(fn)+"#wrapped-store-escapes", p.Pos(in.Pos()), "a wrapped store is sent on a channel / put in a map; calls on it after that are not recognised as sinks")
				}
			}
		}
	}
	r.Analysed("sink_calls", nSinks)
	r.Analysed("sink_args", nArgs)

	// (b) values written to the meta index
	for _, c := range g.indexSets {
		args := c.Args() // recv, key, value
		if len(args) < 3 {
			continue
		}
		n := g.node(args[2])
		construct := FuncKey(c.Fn) + "#index.Set#value"
		if _, bad := g.reachP[n]; bad {
			r.Violation(rule, construct, p.Pos(c.Pos()), "the value half of a meta-index row (later parsed as the encrypted ref and fetched from the wrapped store) derives from API plaintext: "+g.witness(g.reachP, n))
		} else {
			r.OK(rule, construct, p.Pos(c.Pos()), "the index value does not derive from API plaintext (sizes excepted)")
		}
	}

	// (c) keys: every age.Encrypt / age.Decrypt is keyed from the one identity field
	keyReach := g.reach([]c11Source{{g.keyField, "identity field"}}, map[c11EdgeKind]bool{c11Copy: true, c11CopyRev: true, c11Derive: true})
	for _, c := range append(append([]CallSite{}, g.encCalls...), g.decCalls...) {
		args := c.Args()
		construct := FuncKey(c.Fn) + "#" + c11CalleeName(c) + "#key"
		ok := len(args) >= 2
		if ok {
			_, ok = keyReach[g.node(args[1])]
		}
		r.Check(ok, rule, construct, p.Pos(c.Pos()),
			"the recipient/identity derives from the storage's identity field (the same field for encryption and decryption)",
			"the recipient/identity of this call does not derive from the storage's identity field: blobs become undecryptable or are encrypted to a foreign key")
	}
	if len(g.encCalls) == 0 {
		r.Violation(rule, c11Rel+"#age.Encrypt", "?", "package encrypt no longer calls age.Encrypt")
	}
	r.Floor(rule, 16)
}

func c11CalleeName(c CallSite) string {
	k := c.CalleeKey()
	if i := strings.LastIndex(k, "."); i >= 0 && strings.HasPrefix(k, "iface:") {
		return k[i+1:]
	}
	if i := strings.LastIndex(k, "/"); i >= 0 {
		return k[i+1:]
	}
	return k
}

// c11ParamName names argument i (index into c.Args(), receiver first) by the
// callee's parameter name.
func c11ParamName(c CallSite, i int) string {
	sig := c.Common().Signature()
	j := i
	if c.Common().IsInvoke() || sig.Recv() != nil {
		j = i - 1
	}
	if j < 0 {
		return "recv"
	}
	ps := sig.Params()
	if ps.Len() == 0 {
		return fmt.Sprintf("arg%d", j)
	}
	if j >= ps.Len() {
		j = ps.Len() - 1
	}
	if name := ps.At(j).Name(); name != "" && name != "_" {
		return name
	}
	return fmt.Sprintf("arg%d", j)
}

// refOfSameBuffer: ref is (derived from) blob.RefFromBytes/RefFromString/RefFromHash
// applied to bytes that come from one of the buffer objects the uploaded
// content argument is made of. The derivation is followed into package helpers
// (a helper that computes the ref from a buffer parameter stands for its
// argument).
func (g *c11Flow) refOfSameBuffer(ref, content ssa.Value) (bool, string) {
	roots := map[ssa.Value]bool{}
	for r := range c11BufferRoots(content) {
		c, _ := g.canon(r, nil, false)
		roots[r], roots[c] = true, true
	}
	if len(roots) == 0 {
		return false, "the uploaded content has no identifiable buffer"
	}
	foundHash := false
	same := g.dependsOnC(ref, nil, func(v ssa.Value, chain c11Chain) bool {
		call, ok := v.(*ssa.Call)
		if !ok {
			return false
		}
		cs := CallSite{call.Parent(), call}
		if !(cs.IsStatic("perkeep.org/pkg/blob", "", "RefFromBytes") || cs.IsStatic("perkeep.org/pkg/blob", "", "RefFromString") || cs.IsStatic("perkeep.org/pkg/blob", "", "RefFromHash")) {
			return false
		}
		foundHash = true
		for r := range c11BufferRoots(call.Call.Args[0]) {
			c, _ := g.canon(r, chain, false)
			if roots[r] || roots[c] {
				return true
			}
		}
		return false
	})
	if same {
		return true, ""
	}
	if !foundHash {
		return false, "no blob.RefFromBytes/RefFromString/RefFromHash in its derivation"
	}
	return false, "it hashes a different buffer"
}

// refOfSameBufferVia is refOfSameBuffer, except that when both the ref and the
// content are parameters of fn (a ref+bytes forwarding helper) the check is made
// at every caller of fn in the package instead (transitively, bounded).
func (g *c11Flow) refOfSameBufferVia(fn *ssa.Function, ref, content ssa.Value) (bool, string) {
	return g.refOfSameBufferAt(fn, ref, content, 0)
}

func (g *c11Flow) refOfSameBufferAt(fn *ssa.Function, ref, content ssa.Value, depth int) (bool, string) {
	refPrm, isRefPrm := originValue(ref).(*ssa.Parameter)
	var contentPrm *ssa.Parameter
	for root := range c11BufferRoots(content) {
		if prm, ok := root.(*ssa.Parameter); ok {
			contentPrm = prm
		}
	}
	if !isRefPrm || contentPrm == nil || fn.Parent() != nil || refPrm.Parent() != fn || contentPrm.Parent() != fn || depth >= c11MaxDepth {
		return g.refOfSameBuffer(ref, content)
	}
	ri, ci := c11ParamIndex(refPrm), c11ParamIndex(contentPrm)
	callers := 0
	for _, f := range g.fns {
		for _, c := range CallsIn(f, false) {
			if c.Callee() != fn || ri < 0 || ci < 0 || len(c.Args()) != len(fn.Params) {
				continue
			}
			callers++
			args := c.Args()
			if ok, why := g.refOfSameBufferAt(f, args[ri], args[ci], depth+1); !ok {
				return false, "at the caller " + shortFn(f) + " of the forwarding helper: " + why
			}
		}
	}
	if callers == 0 {
		return false, "ref and content are parameters of a helper that has no caller in the package"
	}
	return true, ""
}

// c11BufferRoots returns the buffer objects a reader/bytes value is a view of:
// identity conversions and the standard view constructors (bytes.NewReader,
// (*bytes.Buffer).Bytes ...) are looked through; any other call result,
// allocation or parameter is a root.
func c11BufferRoots(v ssa.Value) map[ssa.Value]bool {
	roots := map[ssa.Value]bool{}
	seen := map[ssa.Value]bool{}
	var walk func(v ssa.Value, depth int)
	walk = func(v ssa.Value, depth int) {
		v = originValue(v)
		if v == nil || seen[v] || depth > 40 {
			return
		}
		seen[v] = true
		switch x := v.(type) {
		case *ssa.Const:
			return
		case *ssa.Slice:
			walk(x.X, depth+1)
			return
		case *ssa.Convert:
			walk(x.X, depth+1)
			return
		case *ssa.TypeAssert:
			walk(x.X, depth+1)
			return
		case *ssa.Phi:
			for _, e := range x.Edges {
				walk(e, depth+1)
			}
			return
		case *ssa.Call:
			cs := CallSite{x.Parent(), x}
			for _, w := range [][3]string{
				{"bytes", "", "NewReader"}, {"bytes", "", "NewBuffer"}, {"bytes", "", "NewBufferString"},
				{"strings", "", "NewReader"}, {"io", "", "NopCloser"}, {"bufio", "", "NewReader"},
				{"bytes", "Buffer", "Bytes"}, {"bytes", "Buffer", "String"}, {"io", "", "LimitReader"},
			} {
				if cs.IsStatic(w[0], w[1], w[2]) {
					before := len(roots)
					walk(x.Call.Args[0], depth+1)
					// a buffer constructed over nothing identifiable (bytes.NewBuffer(nil),
					// bytes.NewBufferString("")) is itself the buffer object that is later written into
					if len(roots) == before && w[1] == "" && (w[2] == "NewBuffer" || w[2] == "NewBufferString") {
						roots[v] = true
					}
					return
				}
			}
		}
		roots[v] = true
	}
	walk(v, 0)
	return roots
}

// ---------------------------------------------------------------------------
// Shared helpers for X-fetch / X-compact

var c11FwdKinds = map[c11EdgeKind]bool{c11Copy: true, c11Derive: true}
var c11AllKinds = map[c11EdgeKind]bool{c11Copy: true, c11CopyRev: true, c11Derive: true, c11Mutate: true}

// flows reports whether data may flow from value a to value b in the graph.
func (g *c11Flow) flows(a, b ssa.Value, kinds map[c11EdgeKind]bool) bool {
	na, nb := g.node(a), g.node(b)
	if na == nil || nb == nil {
		return false
	}
	if na == nb {
		return true
	}
	_, ok := g.reach([]c11Source{{na, ""}}, kinds)[nb]
	return ok
}

func c11LastInstr(b *ssa.BasicBlock) ssa.Instruction { return b.Instrs[len(b.Instrs)-1] }

// c11SinksIn lists the sink calls (calls handed a wrapped store) in fn (deep).
func (g *c11Flow) sinksIn(fn *ssa.Function, deep bool) []c11Sink {
	var out []c11Sink
	for _, c := range g.extCalls {
		if c.Fn != fn && !(deep && c11Encloses(fn, c.Fn)) {
			continue
		}
		for _, a := range c.Args() {
			if s := g.wrappedStore(g.node(a)); s != "" {
				out = append(out, c11Sink{c, s})
				break
			}
		}
	}
	return out
}

func c11Encloses(outer, inner *ssa.Function) bool {
	for f := inner; f != nil; f = f.Parent() {
		if f == outer {
			return true
		}
	}
	return false
}

// contentArg returns the reader/bytes argument a sink uploads (nil if none).
func (g *c11Flow) contentArg(c CallSite) ssa.Value {
	var out ssa.Value
	for _, a := range c.Args() {
		if g.wrappedStore(g.node(a)) != "" {
			continue
		}
		t := a.Type()
		if sl, ok := t.Underlying().(*types.Slice); ok {
			if b, ok := sl.Elem().Underlying().(*types.Basic); ok && b.Kind() == types.Uint8 {
				out = a
			}
		} else if c11Implements(t, g.readerIface) {
			out = a
		}
	}
	return out
}

func (g *c11Flow) refArg(p *Program, c CallSite) ssa.Value {
	refNamed := p.NamedType("pkg/blob", "Ref")
	for _, a := range c.Args() {
		if NamedOf(a.Type()) == refNamed {
			if _, isPtr := a.Type().(*types.Pointer); !isPtr {
				return a
			}
		}
	}
	return nil
}

// paramIndexOfNode returns the index of the parameter of fn whose node is n (-1 if none).
func (g *c11Flow) paramIndexOfNode(fn *ssa.Function, n any) int {
	for i, prm := range fn.Params {
		if g.node(prm) == n && n != nil {
			return i
		}
	}
	return -1
}

// ---------------------------------------------------------------------------
// Effective bodies
//
// A rule that looks for a site "in function F" looks in F's effective body: F
// plus, transitively, the package functions, methods and function literals F
// calls statically. A site found that way carries the chain of calls that
// leads to it; values are mapped through the chain (a parameter of a helper
// stands for the caller's argument, the result of a helper call for what the
// helper returns on success), and ordering facts are carried across the calls
// (holds): a call of helper H counts as "P happened" where H's failure is
// excluded, if every exit of H that is compatible with what the caller knows
// has P behind it.

const c11MaxDepth = 4

// c11Link is one step of a chain: call site c (in c.Fn) enters function to.
// cb: to is a function value handed to a callee outside the package (it runs
// when and as often as that callee likes).
type c11Link struct {
	CallSite
	to *ssa.Function
	cb bool
}

func (l c11Link) sync() bool { return !l.cb && l.Value() != nil }

type c11Chain []c11Link

func (ch c11Chain) with(l c11Link) c11Chain {
	out := make(c11Chain, len(ch)+1)
	copy(out, ch)
	out[len(ch)] = l
	return out
}

func (ch c11Chain) has(fn *ssa.Function) bool {
	for _, l := range ch {
		if l.to == fn || l.Fn == fn {
			return true
		}
	}
	return false
}

func (ch c11Chain) sync() bool {
	for _, l := range ch {
		if !l.sync() {
			return false
		}
	}
	return true
}

// via renders the chain for messages.
func (ch c11Chain) via() string {
	if len(ch) == 0 {
		return ""
	}
	var s []string
	for _, l := range ch {
		s = append(s, shortFn(l.to))
	}
	return " (in " + strings.Join(s, " > ") + ")"
}

// c11At is an instruction seen from a root function through a chain of calls:
// chain[0].Fn is the root, in lives in chain[len-1].to (in the root when the
// chain is empty).
type c11At struct {
	chain c11Chain
	in    ssa.Instruction
	// nilVal: an error value known to be nil when the site is reached for the
	// purpose of the question asked (the error a success exit returns)
	nilVal ssa.Value
}

// c11ECall is a call site of an effective body.
type c11ECall struct {
	CallSite
	chain c11Chain
}

func (e c11ECall) at() c11At { return c11At{chain: e.chain, in: e.Instr} }

func (g *c11Flow) followable(fn *ssa.Function) bool {
	return fn != nil && g.inPkg[fn] && fn.Blocks != nil
}

// c11FuncArgs lists the package functions handed to call c as arguments:
// function literals, declared functions and bound methods.
func (g *c11Flow) funcArgs(c CallSite) []*ssa.Function {
	var out []*ssa.Function
	for _, a := range c.Common().Args {
		if _, isFunc := a.Type().Underlying().(*types.Signature); !isFunc {
			continue
		}
		var fn *ssa.Function
		switch v := originValue(a).(type) {
		case *ssa.MakeClosure:
			fn, _ = v.Fn.(*ssa.Function)
			if fn != nil && fn.Blocks != nil && !g.inPkg[fn] && len(v.Bindings) == 1 {
				// bound method wrapper: the method it forwards to
				if obj, ok := fn.Object().(*types.Func); ok {
					if m := g.p.SSA.FuncValue(obj); m != nil {
						fn = m
					}
				}
			}
		case *ssa.Function:
			fn = v
		}
		if g.followable(fn) {
			out = append(out, fn)
		}
	}
	return out
}

// effCalls lists the call sites of root's effective body. stop: functions
// that are not entered (their call sites are listed, their bodies are not).
// With callbacks, functions handed to callees outside the package are entered
// too (their links have cb set).
func (g *c11Flow) effCalls(root *ssa.Function, stop map[*ssa.Function]bool, callbacks bool) []c11ECall {
	calls, _ := g.effBody(root, stop, callbacks)
	return calls
}

// effFuncs lists the functions of root's effective body (root first), each
// with the chain that enters it.
func (g *c11Flow) effFuncs(root *ssa.Function, stop map[*ssa.Function]bool, callbacks bool) []c11Root {
	_, funcs := g.effBody(root, stop, callbacks)
	return funcs
}

func (g *c11Flow) effBody(root *ssa.Function, stop map[*ssa.Function]bool, callbacks bool) ([]c11ECall, []c11Root) {
	var out []c11ECall
	var funcs []c11Root
	var walk func(fn *ssa.Function, chain c11Chain)
	walk = func(fn *ssa.Function, chain c11Chain) {
		funcs = append(funcs, c11Root{fn, chain, true})
		for _, c := range CallsIn(fn, false) {
			out = append(out, c11ECall{c, chain})
			if len(chain) >= c11MaxDepth {
				continue
			}
			if callee := c.Callee(); g.followable(callee) {
				if !stop[callee] && callee != root && !chain.has(callee) && len(c.Args()) == len(callee.Params) {
					walk(callee, chain.with(c11Link{c, callee, false}))
				}
				continue
			}
			if callbacks {
				for _, lit := range g.funcArgs(c) {
					if !stop[lit] && lit != root && !chain.has(lit) {
						walk(lit, chain.with(c11Link{c, lit, true}))
					}
				}
			}
		}
	}
	walk(root, nil)
	return out, funcs
}

// closedCallers lists the call sites of fn in the package; closed=false when
// fn may also be entered from elsewhere (exported, used as a value, reachable
// through an interface, handed to a callee as a callback).
func (g *c11Flow) closedCallers(fn *ssa.Function) (sites []CallSite, closed bool) {
	closed = true
	if fn.Parent() == nil {
		if token.IsExported(fn.Name()) {
			closed = false
		}
		if len(g.p.FuncValueUses(fn)) > 0 || len(g.p.InvokeSites(fn)) > 0 {
			closed = false
		}
	}
	for _, f := range g.fns {
		for _, c := range CallsIn(f, false) {
			if c.Callee() == fn && len(c.Args()) == len(fn.Params) {
				sites = append(sites, c)
				continue
			}
			for _, lit := range g.funcArgs(c) {
				if lit == fn {
					closed = false
				}
			}
		}
	}
	if fn.Parent() != nil {
		// every use of the closure value must be one of the call sites found
		for _, b := range fn.Parent().Blocks {
			for _, in := range b.Instrs {
				mc, ok := in.(*ssa.MakeClosure)
				if !ok || mc.Fn != ssa.Value(fn) {
					continue
				}
				if refs := mc.Referrers(); refs != nil {
					for _, rf := range *refs {
						switch x := rf.(type) {
						case *ssa.DebugRef, *ssa.Store:
						case ssa.CallInstruction:
							if x.Common().Value != ssa.Value(mc) {
								closed = false
							}
						default:
							closed = false
						}
					}
				}
			}
		}
	}
	return sites, closed
}

func c11ParamIndex(prm *ssa.Parameter) int {
	for i, q := range prm.Parent().Params {
		if q == prm {
			return i
		}
	}
	return -1
}

func c11ValueFn(v ssa.Value) *ssa.Function {
	switch x := v.(type) {
	case *ssa.Parameter:
		return x.Parent()
	case *ssa.FreeVar:
		return x.Parent()
	case ssa.Instruction:
		return x.Parent()
	}
	return nil
}

// c11IsZero: a value that stands for "nothing" on a return (nil, zero constant,
// the zero value of a struct).
func c11IsZero(v ssa.Value) bool {
	switch x := v.(type) {
	case *ssa.Const:
		if x.Value == nil {
			return true
		}
		switch x.Value.Kind() {
		case constant.Int:
			n, ok := constant.Int64Val(x.Value)
			return ok && n == 0
		case constant.String:
			return constant.StringVal(x.Value) == ""
		case constant.Bool:
			return !constant.BoolVal(x.Value)
		}
	case *ssa.UnOp:
		if x.Op == token.MUL {
			if al, ok := x.X.(*ssa.Alloc); ok && len(c11WritesInto(al)) == 0 {
				return true
			}
		}
	}
	return false
}

// successReturns lists the returns of fn that may report success, per
// incoming edge when the error is merged by a phi (all returns when fn has no
// error result).
func c11SuccessReturns(fn *ssa.Function) []NilReturn {
	if ErrResultIndex(fn) >= 0 {
		return MaybeNilErrorReturns(fn)
	}
	var out []NilReturn
	for _, ri := range Returns(fn) {
		out = append(out, NilReturn{ri.Ret, nil, ri.Ret.Block()})
	}
	return out
}

func c11ResolvedResults(fn *ssa.Function) map[*ssa.Return][]ssa.Value {
	m := map[*ssa.Return][]ssa.Value{}
	for _, ri := range Returns(fn) {
		m[ri.Ret] = ri.Results
	}
	return m
}

// soleResult: the one value fn returns as result idx on its success returns
// (zero values aside); nil when there are several.
func (g *c11Flow) soleResult(fn *ssa.Function, idx int) ssa.Value {
	res := c11ResolvedResults(fn)
	var found ssa.Value
	for _, nr := range c11SuccessReturns(fn) {
		rs := res[nr.Ret]
		if idx >= len(rs) {
			return nil
		}
		v := rs[idx]
		if ph, ok := v.(*ssa.Phi); ok && ph.Block() == nr.Ret.Block() && nr.From != nr.Ret.Block() {
			for i, pred := range ph.Block().Preds {
				if pred == nr.From {
					v = ph.Edges[i]
				}
			}
		}
		if c11IsZero(v) {
			continue
		}
		if found != nil && !sameOrigin(found, v) {
			return nil
		}
		found = v
	}
	return found
}

// c11CallOfResult: v is (an extract of) the result of a call; returns the call
// and the result index.
func c11CallOfResult(v ssa.Value) (*ssa.Call, int) {
	switch x := v.(type) {
	case *ssa.Call:
		return x, 0
	case *ssa.Extract:
		if call, ok := x.Tuple.(*ssa.Call); ok {
			return call, x.Index
		}
	}
	return nil, 0
}

// canon follows v (living in the function the chain leads to) to the value it
// stands for: through loads of single-store variables, from a parameter of a
// helper to the argument at the chain's call site (without a chain, and with
// up set: to the argument of the helper's only call site), from the result of
// a package helper call to what the helper returns on success.
func (g *c11Flow) canon(v ssa.Value, chain c11Chain, up bool) (ssa.Value, c11Chain) {
	for i := 0; i < 24 && v != nil; i++ {
		o := originValue(v)
		fn := c11ValueFn(o)
		if fn == nil {
			return o, nil // constants, globals: the same wherever they are seen from
		}
		if len(chain) > 0 && chain[0].Fn == fn {
			chain = nil
		} else {
			// the value may live further up (captured variable of a literal)
			for k := len(chain) - 1; k >= 0; k-- {
				if chain[k].to == fn {
					chain = chain[:k+1]
					break
				}
				if chain[k].Fn == fn {
					chain = chain[:k]
					break
				}
			}
		}
		switch x := o.(type) {
		case *ssa.Parameter:
			idx := c11ParamIndex(x)
			if n := len(chain); n > 0 {
				if l := chain[n-1]; l.to == x.Parent() && !l.cb && idx >= 0 && idx < len(l.Args()) {
					v, chain = l.Args()[idx], chain[:n-1]
					continue
				}
				return o, chain
			}
			if up && idx >= 0 {
				if sites, closed := g.closedCallers(x.Parent()); closed && len(sites) == 1 {
					v = sites[0].Args()[idx]
					continue
				}
			}
			return o, chain
		case *ssa.Call, *ssa.Extract:
			call, idx := c11CallOfResult(o)
			if call == nil {
				return o, chain
			}
			cs := CallSite{call.Parent(), call}
			h := cs.Callee()
			if !g.followable(h) || len(chain) >= c11MaxDepth+2 || chain.has(h) || len(cs.Args()) != len(h.Params) {
				return o, chain
			}
			r := g.soleResult(h, idx)
			if r == nil {
				return o, chain
			}
			v, chain = r, chain.with(c11Link{cs, h, false})
			continue
		}
		return o, chain
	}
	return v, chain
}

func c11SameChain(a, b c11Chain) bool {
	if len(a) != len(b) {
		return false
	}
	for i := range a {
		if a[i].Instr != b[i].Instr || a[i].to != b[i].to {
			return false
		}
	}
	return true
}

// same: the two values (each seen, from one common root, through its chain)
// denote the same run-time value: the same canonical value reached through the
// same calls (a value inside a helper is a different value per call of the helper).
func (g *c11Flow) same(a ssa.Value, ca c11Chain, b ssa.Value, cb c11Chain) bool {
	if a == nil || b == nil {
		return false
	}
	x, cx := g.canon(a, ca, false)
	y, cy := g.canon(b, cb, false)
	return sameOrigin(x, y) && c11SameChain(cx, cy)
}

// sameNode is same up to the identity conversions the flow graph collapses
// (interface conversions, slicing, address arithmetic).
func (g *c11Flow) sameNode(a ssa.Value, ca c11Chain, b ssa.Value, cb c11Chain) bool {
	if a == nil || b == nil {
		return false
	}
	x, cx := g.canon(a, ca, false)
	y, cy := g.canon(b, cb, false)
	nx, ny := g.node(x), g.node(y)
	if nx == nil || nx != ny {
		return false
	}
	if _, isLoc := nx.(c11Loc); isLoc {
		return true // field-based location
	}
	return c11SameChain(cx, cy)
}

// cnode: the flow-graph node of the canonical value.
func (g *c11Flow) cnode(v ssa.Value, chain c11Chain) any {
	x, _ := g.canon(v, chain, false)
	return g.node(x)
}

// cflows: data may flow from a to b (canonical values).
func (g *c11Flow) cflows(a ssa.Value, ca c11Chain, b ssa.Value, cb c11Chain, kinds map[c11EdgeKind]bool) bool {
	if a == nil || b == nil {
		return false
	}
	x, _ := g.canon(a, ca, false)
	y, _ := g.canon(b, cb, false)
	return g.flows(x, y, kinds) || g.flows(x, b, kinds) || g.flows(a, y, kinds) || g.flows(a, b, kinds)
}

// storeOf: the wrapped store a call is applied to, resolved through the chain
// (a forwarding helper takes the store as a parameter).
func (g *c11Flow) storeOf(c c11ECall) string {
	for _, a := range c.Args() {
		if s := g.wrappedStore(g.node(a)); s != "" {
			if !strings.Contains(s, "|") {
				return s
			}
			if t := g.wrappedStore(g.cnode(a, c.chain)); t != "" {
				return t
			}
			return s
		}
	}
	return ""
}

// --- events

type c11Want int

const (
	c11Ran   c11Want = iota // the call has been executed (whatever its outcome)
	c11Done                 // the call has returned without error
	c11True                 // the boolean value was true
	c11False                // the boolean value was false
)

// c11Event: something that must have happened before a site is reached. For
// c11Ran/c11Done at.in is the call; for c11True/c11False val is the boolean
// value (a call result or a comparison) and at.in the instruction defining it.
type c11Event struct {
	at   c11At
	want c11Want
	val  ssa.Value
}

func c11CallEvent(c c11ECall, want c11Want) c11Event {
	ev := c11Event{at: c.at(), want: want}
	if want == c11True || want == c11False {
		if v := c.Value(); v != nil {
			ev.val = v
		}
	}
	return ev
}

func c11StripNot(cond ssa.Value) (ssa.Value, bool) {
	neg := false
	for i := 0; i < 8; i++ {
		u, ok := cond.(*ssa.UnOp)
		if !ok || u.Op != token.NOT {
			break
		}
		cond, neg = u.X, !neg
	}
	return cond, neg
}

// c11BoolKnown: what the branch conditions that dominate block b say about the
// boolean value val.
func c11BoolKnown(b *ssa.BasicBlock, val ssa.Value) (known, isTrue bool) {
	val, vneg := c11StripNot(val)
	for _, f := range FactsAt(b) {
		cond, neg := c11StripNot(f.Cond)
		if cond == val || originValue(cond) == originValue(val) {
			return true, (f.Val != neg) != vneg
		}
	}
	return false, false
}

// c11SucceededAt: call precedes target and its error result (if any) is known
// nil there: by the branch conditions, or because it is nilVal.
func c11SucceededAt(call *ssa.Call, target ssa.Instruction, nilVal ssa.Value) (bool, string) {
	ok, why := SuccessDominates(call, target)
	if ok || nilVal == nil || !Precedes(call, target) {
		return ok, why
	}
	if ev, hasErr, discarded := ErrValue(call); hasErr && !discarded && sameOrigin(ev, nilVal) {
		return true, ""
	}
	return false, why
}

func c11LocalHolds(ev c11Event, target ssa.Instruction, nilVal ssa.Value) (bool, string) {
	if ev.at.in.Parent() != target.Parent() {
		return false, "the event and the site are in different functions"
	}
	switch ev.want {
	case c11Ran:
		if Precedes(ev.at.in, target) {
			return true, ""
		}
		return false, "the call does not precede the site on every path"
	case c11Done:
		call, ok := ev.at.in.(*ssa.Call)
		if !ok {
			return false, "the call is started with go or deferred"
		}
		return c11SucceededAt(call, target, nilVal)
	default:
		if ev.val == nil {
			return false, "no boolean value"
		}
		if k, isTrue := c11BoolKnown(target.Block(), ev.val); k {
			if isTrue == (ev.want == c11True) {
				return true, ""
			}
			return false, "the site is on the opposite branch of the test"
		}
		return false, "the site is not guarded by the test"
	}
}

// holds: on every path on which control reaches site, the event has happened
// before. Both are seen from the same root.
func (g *c11Flow) holds(ev c11Event, site c11At, depth int) (bool, string) {
	ec, sc := ev.at.chain, site.chain
	for len(ec) > 0 && len(sc) > 0 && ec[0].Instr == sc[0].Instr && ec[0].to == sc[0].to {
		ec, sc = ec[1:], sc[1:]
	}
	target, nilVal := site.in, site.nilVal
	if len(sc) > 0 {
		target, nilVal = sc[0].Instr, nil
	}
	if len(ec) == 0 {
		return c11LocalHolds(ev, target, nilVal)
	}
	if !ec[0].sync() {
		return false, "it happens in " + shortFn(ec[0].to) + ", which is started with go, deferred or run as a callback"
	}
	if depth > c11MaxDepth+2 {
		return false, "helper nesting too deep"
	}
	inner := ev
	inner.at = c11At{chain: ec[1:], in: ev.at.in}
	return g.callImplies(ec[0], inner, target, nilVal, depth+1)
}

// callImplies: call h (of a package helper) precedes target, and every exit of
// the helper that is compatible with what is known about h's results at target
// has the inner event behind it.
func (g *c11Flow) callImplies(l c11Link, inner c11Event, target ssa.Instruction, nilVal ssa.Value, depth int) (bool, string) {
	h := l.Value()
	H := l.to
	name := shortFn(H)
	if h.Parent() != target.Parent() {
		return false, "the call of " + name + " and the site are in different functions"
	}
	if !Precedes(h, target) {
		return false, "the call of " + name + " does not precede the site on every path"
	}
	errIdx := ErrResultIndex(H)
	errNil := false
	if errIdx >= 0 {
		errNil, _ = c11SucceededAt(h, target, nilVal)
	}
	// boolean results of h known at target
	boolKnown := map[int]bool{}
	res := H.Signature.Results()
	for i := 0; i < res.Len(); i++ {
		if b, ok := res.At(i).Type().Underlying().(*types.Basic); ok && b.Kind() == types.Bool {
			if rv := ResultValue(h, i); rv != nil {
				if k, isTrue := c11BoolKnown(target.Block(), rv); k {
					boolKnown[i] = isTrue
				}
			}
		}
	}
	resolved := c11ResolvedResults(H)
	var exits []NilReturn
	if errNil {
		exits = MaybeNilErrorReturns(H)
	} else {
		for _, ri := range Returns(H) {
			exits = append(exits, NilReturn{ri.Ret, nil, ri.Ret.Block()})
		}
	}
	if len(exits) == 0 {
		return false, name + " has no exit that is compatible with the site"
	}
nextExit:
	for _, x := range exits {
		rs := resolved[x.Ret]
		for i, known := range boolKnown {
			if i >= len(rs) {
				continue
			}
			rv := rs[i]
			if ph, ok := rv.(*ssa.Phi); ok && ph.Block() == x.Ret.Block() && x.From != x.Ret.Block() {
				for k, pred := range ph.Block().Preds {
					if pred == x.From {
						rv = ph.Edges[k]
					}
				}
			}
			if k, ok := rv.(*ssa.Const); ok && k.Value != nil && k.Value.Kind() == constant.Bool {
				if constant.BoolVal(k.Value) != known {
					continue nextExit // the caller knows this exit was not taken
				}
				continue
			}
			// the helper returns the tested value itself
			if len(inner.at.chain) == 0 && inner.val != nil && (inner.want == c11True || inner.want == c11False) {
				a, aneg := c11StripNot(rv)
				b, bneg := c11StripNot(inner.val)
				if a == b || originValue(a) == originValue(b) {
					if (known != (aneg != bneg)) == (inner.want == c11True) {
						continue nextExit
					}
					return false, name + " returns the outcome of the test, and the site is on the branch where it failed"
				}
			}
		}
		xs := c11At{in: c11LastInstr(x.From)}
		if errNil {
			xs.nilVal = x.Val // the caller knows the error this exit returns is nil
		}
		ok, why := g.holds(inner, xs, depth)
		if !ok {
			if errIdx >= 0 && !errNil {
				return false, "the site is not on the success edge of " + name + ", and " + name + " can return without it (" + why + ")"
			}
			return false, name + " can return to the site without it (" + why + ")"
		}
	}
	return true, ""
}

// --- success exits

type c11Exit struct {
	at      c11At
	ret     *ssa.Return
	results []ssa.Value
	errVal  ssa.Value
	fn      *ssa.Function
}

func (g *c11Flow) successExits(fn *ssa.Function, chain c11Chain) []c11Exit {
	res := c11ResolvedResults(fn)
	var out []c11Exit
	for _, nr := range c11SuccessReturns(fn) {
		out = append(out, c11Exit{c11At{chain: chain, in: c11LastInstr(nr.From), nilVal: nr.Val}, nr.Ret, res[nr.Ret], nr.Val, fn})
	}
	return out
}

// exitOK: check holds at exit x; when it does not and x merely forwards the
// outcome of a package helper call (a tail call: the returned error is the
// helper's), the helper's own success exits are examined instead.
func (g *c11Flow) exitOK(x c11Exit, depth int, check func(c11Exit) (bool, string)) (bool, string) {
	ok, why := check(x)
	if ok || depth >= c11MaxDepth || x.errVal == nil {
		return ok, why
	}
	call, idx := c11CallOfResult(originValue(x.errVal))
	if call == nil || call.Parent() != x.fn {
		return false, why
	}
	cs := CallSite{x.fn, call}
	h := cs.Callee()
	if !g.followable(h) || ErrResultIndex(h) != idx || x.at.chain.has(h) || len(cs.Args()) != len(h.Params) {
		return false, why
	}
	inner := g.successExits(h, x.at.chain.with(c11Link{cs, h, false}))
	if len(inner) == 0 {
		return false, why
	}
	for _, y := range inner {
		if ok2, why2 := g.exitOK(y, depth+1, check); !ok2 {
			return false, why + "; nor at the success exits of " + shortFn(h) + ", whose outcome is returned (" + why2 + ")"
		}
	}
	return true, ""
}

// --- what happens after a failure

type c11FailLevel struct {
	fn     *ssa.Function
	chain  c11Chain // from the root to fn
	reach  map[ssa.Instruction]bool
	silent []*ssa.Return // returns reachable after the failure that do not report it
}

// c11ReachAssuming lists the instructions reachable after start; at an If whose
// condition assume decides only that branch is taken.
func c11ReachAssuming(start ssa.Instruction, assume func(cond ssa.Value) (known, val bool)) map[ssa.Instruction]bool {
	out := map[ssa.Instruction]bool{}
	seen := map[*ssa.BasicBlock]bool{}
	var walk func(b *ssa.BasicBlock, from int)
	walk = func(b *ssa.BasicBlock, from int) {
		for i := from; i < len(b.Instrs); i++ {
			in := b.Instrs[i]
			out[in] = true
			if ifi, ok := in.(*ssa.If); ok && assume != nil && len(b.Succs) == 2 {
				if known, val := assume(ifi.Cond); known {
					s := b.Succs[1]
					if val {
						s = b.Succs[0]
					}
					if !seen[s] {
						seen[s] = true
						walk(s, 0)
					}
					return
				}
			}
		}
		for _, s := range b.Succs {
			if !seen[s] {
				seen[s] = true
				walk(s, 0)
			}
		}
	}
	walk(start.Block(), instrIndex(start)+1)
	return out
}

// afterFailure computes what may execute after call x (seen from a root) has
// failed, function by function from the one containing x up to the root: in
// each, the branches that test the failure are followed on the failure side
// only. A helper whose every exit reachable that way reports the failure (a
// non-nil error or a constant false) lets its caller tell; otherwise the
// caller continues as if nothing had happened.
func (g *c11Flow) afterFailure(x c11At) (levels []c11FailLevel, why string) {
	call, ok := x.in.(*ssa.Call)
	if !ok {
		return nil, "the call is started with go or deferred"
	}
	ev, hasErr, discarded := ErrValue(call)
	if !hasErr {
		return nil, "the call has no error result"
	}
	var assume func(cond ssa.Value) (bool, bool)
	if !discarded {
		assume = c11AssumeNonNil(ev)
	}
	start := ssa.Instruction(call)
	failVal := ev
	chain := x.chain
	for {
		fn := start.Parent()
		lv := c11FailLevel{fn: fn, chain: chain, reach: c11ReachAssuming(start, assume)}
		resolved := c11ResolvedResults(fn)
		errIdx := ErrResultIndex(fn)
		byErr, byBool, nRet := true, true, 0
		boolIdx := -1
		for in := range lv.reach {
			ret, isRet := in.(*ssa.Return)
			if !isRet || ret.Block() == fn.Recover {
				continue
			}
			nRet++
			rs := resolved[ret]
			okErr := false
			if errIdx >= 0 && errIdx < len(rs) {
				v := rs[errIdx]
				if failVal != nil && sameOrigin(v, failVal) || isNonNilErrorExpr(v) {
					okErr = true
				} else if k, isNil := NilFact(ret.Block(), v); k && !isNil {
					okErr = true
				}
			}
			okBool := false
			for i, v := range rs {
				if k, isK := v.(*ssa.Const); isK && k.Value != nil && k.Value.Kind() == constant.Bool && !constant.BoolVal(k.Value) {
					if boolIdx < 0 || boolIdx == i {
						okBool, boolIdx = true, i
					}
				}
			}
			if !okErr {
				byErr = false
			}
			if !okBool {
				byBool = false
			}
			if !okErr && !okBool {
				lv.silent = append(lv.silent, ret)
			}
		}
		sort.Slice(lv.silent, func(i, j int) bool { return lv.silent[i].Block().Index < lv.silent[j].Block().Index })
		levels = append(levels, lv)
		if len(chain) == 0 || nRet == 0 {
			return levels, ""
		}
		l := chain[len(chain)-1]
		chain = chain[:len(chain)-1]
		start = l.Instr
		assume, failVal = nil, nil
		hv := l.Value()
		if hv == nil || l.cb {
			continue // started with go / deferred / a callback: the caller goes on regardless
		}
		switch {
		case byErr:
			if ev2, has, disc := ErrValue(hv); has && !disc {
				assume, failVal = c11AssumeNonNil(ev2), ev2
			}
		case byBool && boolIdx >= 0:
			if rv := ResultValue(hv, boolIdx); rv != nil {
				assume = func(cond ssa.Value) (bool, bool) {
					c, neg := c11StripNot(cond)
					if c == rv || originValue(c) == originValue(rv) {
						return true, neg // the value is false
					}
					return false, false
				}
			}
		}
	}
}

func c11AssumeNonNil(ev ssa.Value) func(cond ssa.Value) (bool, bool) {
	return func(cond ssa.Value) (bool, bool) {
		if k, isNil := condSaysNil(cond, true, ev); k {
			return true, !isNil
		}
		return false, false
	}
}

// targetAt: the instruction of fn (entered through chain) through which site
// is reached, nil when site is not reached through that function.
func c11TargetAt(site c11At, fn *ssa.Function, chain c11Chain) ssa.Instruction {
	if len(site.chain) < len(chain) {
		return nil
	}
	for i := range chain {
		if site.chain[i].Instr != chain[i].Instr {
			return nil
		}
	}
	if len(site.chain) == len(chain) {
		if site.in.Parent() == fn {
			return site.in
		}
		return nil
	}
	if l := site.chain[len(chain)]; l.Fn == fn {
		return l.Instr
	}
	return nil
}

// --- interprocedural backward slice

// dependsOn: v (seen through chain) is computed from a value satisfying
// target. Like DependsOn, continued into package helpers: from the result of a
// helper call into what the helper returns, from a helper's parameter to the
// argument of the call that entered it.
func (g *c11Flow) dependsOn(v ssa.Value, chain c11Chain, target func(ssa.Value) bool) bool {
	return g.dependsOnC(v, chain, func(v ssa.Value, _ c11Chain) bool { return target(v) })
}

// dependsOnC is dependsOn with a target that is also told the chain through
// which the value is seen.
func (g *c11Flow) dependsOnC(v ssa.Value, chain c11Chain, target func(ssa.Value, c11Chain) bool) bool {
	type key struct {
		v ssa.Value
		n int
	}
	seen := map[key]bool{}
	var walk func(v ssa.Value, chain c11Chain, depth int) bool
	walk = func(v ssa.Value, chain c11Chain, depth int) bool {
		if v == nil || depth > 80 {
			return false
		}
		k := key{v, len(chain)}
		if seen[k] {
			return false
		}
		seen[k] = true
		if target(v, chain) {
			return true
		}
		switch x := v.(type) {
		case *ssa.Const, *ssa.Function, *ssa.Builtin, *ssa.Global:
			return false
		case *ssa.Parameter:
			if n := len(chain); n > 0 {
				if l := chain[n-1]; l.to == x.Parent() && !l.cb {
					if idx := c11ParamIndex(x); idx >= 0 && idx < len(l.Args()) {
						return walk(l.Args()[idx], chain[:n-1], depth+1)
					}
				}
			}
			return false
		case *ssa.FreeVar:
			if b := bindingOf(x); b != nil {
				for n := len(chain); n > 0; n-- {
					if chain[n-1].to == x.Parent() {
						return walk(b, chain[:n-1], depth+1)
					}
				}
				return walk(b, chain, depth+1)
			}
			return false
		case *ssa.UnOp:
			if x.Op == token.MUL {
				if cell, ok := varOf(x.X); ok {
					if cell != x.X && target(cell, chain) {
						return true
					}
					for _, st := range storesTo(cell) {
						ch := chain
						if fn := st.Parent(); fn != x.Parent() {
							for n := len(ch); n > 0; n-- {
								if ch[n-1].Fn == fn {
									ch = ch[:n-1]
									break
								}
							}
						}
						if walk(st.Val, ch, depth+1) {
							return true
						}
					}
				}
			}
		case *ssa.Alloc:
			// a local whose address is used (a struct whose fields are selected, an array that is
			// filled): what is stored into it or into its parts, what calls that are handed it may write
			for _, in := range c11WritesInto(x) {
				switch y := in.(type) {
				case *ssa.Store:
					if walk(y.Val, chain, depth+1) {
						return true
					}
				case ssa.CallInstruction:
					for _, a := range (CallSite{x.Parent(), y}).Args() {
						if a != ssa.Value(x) && walk(a, chain, depth+1) {
							return true
						}
					}
				}
			}
			return false
		case *ssa.Call, *ssa.Extract:
			call, idx := c11CallOfResult(x)
			if call != nil {
				cs := CallSite{call.Parent(), call}
				if h := cs.Callee(); g.followable(h) && len(chain) < c11MaxDepth+2 && !chain.has(h) && len(cs.Args()) == len(h.Params) {
					if _, isCall := x.(*ssa.Call); isCall && call.Call.Signature().Results().Len() > 1 {
						idx = -1
					}
					inner := chain.with(c11Link{cs, h, false})
					for _, ri := range Returns(h) {
						for i, rv := range ri.Results {
							if (idx < 0 || i == idx) && walk(rv, inner, depth+1) {
								return true
							}
						}
					}
					return false
				}
			}
		}
		if in, ok := v.(ssa.Instruction); ok {
			for _, op := range in.Operands(nil) {
				if *op != nil && walk(*op, chain, depth+1) {
					return true
				}
			}
		}
		return false
	}
	return walk(v, chain, 0)
}

// rootsOf walks up from fn to the functions in whose effective body has(root)
// holds: fn itself when it does, else (fn closed) each of its callers,
// transitively. The chain leads from the root down to fn. When no such
// function exists, fn itself is returned (found=false).
type c11Root struct {
	fn    *ssa.Function
	chain c11Chain
	found bool
}

func (g *c11Flow) rootsOf(fn *ssa.Function, has func(root *ssa.Function) bool) []c11Root {
	var out []c11Root
	var up func(cur *ssa.Function, below c11Chain, depth int) bool
	up = func(cur *ssa.Function, below c11Chain, depth int) bool {
		if has(cur) {
			out = append(out, c11Root{cur, below, true})
			return true
		}
		if depth >= c11MaxDepth {
			return false
		}
		sites, closed := g.closedCallers(cur)
		if !closed || len(sites) == 0 {
			return false
		}
		n := len(out)
		for _, cs := range sites {
			if cs.Fn == cur || below.has(cs.Fn) {
				out = out[:n]
				return false
			}
			chain := append(c11Chain{{cs, cur, false}}, below...)
			if !up(cs.Fn, chain, depth+1) {
				out = out[:n]
				return false
			}
		}
		return true
	}
	if !up(fn, nil, 0) {
		return []c11Root{{fn, nil, false}}
	}
	return out
}

// ---------------------------------------------------------------------------
// Roles of the crypto helpers

// c11Roles: the encrypt helper (decrypt helper) is found by walking up from the
// age.Encrypt (age.Decrypt) call - the function containing it, its only caller,
// that one's only caller, ... - and taking the outermost function of the
// unbroken run of functions that have both the ciphertext buffer and the
// plaintext buffer as parameters (a function split into wrapper + worker counts
// as one helper: the wrapper). The age call is seen from the helper through a
// chain.
type c11Roles struct {
	encFn, decFn                                         *ssa.Function
	encCall, decCall                                     c11ECall
	encCipherIdx, encPlainIdx, decCipherIdx, decPlainIdx int
}

func (ro c11Roles) stop() map[*ssa.Function]bool {
	return map[*ssa.Function]bool{ro.encFn: true, ro.decFn: true}
}

func (g *c11Flow) roles() (c11Roles, bool) {
	if g.rolesDone {
		return g.rolesV, g.rolesOK
	}
	g.rolesDone = true
	ro := c11Roles{encCipherIdx: -1, encPlainIdx: -1, decCipherIdx: -1, decPlainIdx: -1}
	g.rolesV = ro
	if len(g.encCalls) != 1 || len(g.decCalls) != 1 {
		return ro, false
	}
	// candidates: the function containing the call, then its only caller, ...
	type cand struct {
		fn    *ssa.Function
		chain c11Chain
	}
	cands := func(c CallSite) []cand {
		out := []cand{{c.Fn, nil}}
		cur, chain := c.Fn, c11Chain(nil)
		for i := 0; i < c11MaxDepth; i++ {
			sites, closed := g.closedCallers(cur)
			if !closed || len(sites) != 1 || sites[0].Value() == nil || sites[0].Fn == cur {
				break
			}
			chain = append(c11Chain{{sites[0], cur, false}}, chain...)
			cur = sites[0].Fn
			out = append(out, cand{cur, chain})
		}
		return out
	}
	encCall, decCall := g.encCalls[0], g.decCalls[0]
	for _, cd := range cands(encCall) {
		if cd.fn.Parent() != nil {
			continue
		}
		ci := g.paramIndexOfNode(cd.fn, g.cnode(encCall.Args()[0], cd.chain))
		pi := -1
		for i, prm := range cd.fn.Params {
			if i != ci && c11Objecty(prm.Type()) && NamedOf(prm.Type()) != g.storeType {
				pi = i
			}
		}
		if ci >= 0 && pi >= 0 {
			ro.encFn, ro.encCall, ro.encCipherIdx, ro.encPlainIdx = cd.fn, c11ECall{encCall, cd.chain}, ci, pi
		} else if ro.encFn != nil {
			break
		}
	}
	out := ResultValue(decCall.Value(), 0)
	for _, cd := range cands(decCall) {
		if cd.fn.Parent() != nil || out == nil {
			continue
		}
		ci := g.paramIndexOfNode(cd.fn, g.cnode(decCall.Args()[0], cd.chain))
		pi := -1
		for i, prm := range cd.fn.Params {
			if i != ci && c11Objecty(prm.Type()) && NamedOf(prm.Type()) != g.storeType && g.flows(out, prm, c11AllKinds) {
				pi = i
			}
		}
		if ci >= 0 && pi >= 0 {
			ro.decFn, ro.decCall, ro.decCipherIdx, ro.decPlainIdx = cd.fn, c11ECall{decCall, cd.chain}, ci, pi
		} else if ro.decFn != nil {
			break
		}
	}
	g.rolesV = ro
	g.rolesOK = ro.encFn != nil && ro.decFn != nil
	return ro, g.rolesOK
}

// isSink: c hands a wrapped store to a callee outside the package; returns the store.
func (g *c11Flow) isSink(c CallSite) bool {
	if g.extSet == nil {
		g.extSet = map[ssa.CallInstruction]bool{}
		for _, e := range g.extCalls {
			g.extSet[e.Instr] = true
		}
	}
	if !g.extSet[c.Instr] {
		return false
	}
	for _, a := range c.Args() {
		if g.wrappedStore(g.node(a)) != "" {
			return true
		}
	}
	return false
}

// ---------------------------------------------------------------------------
// X-fetch

func c11RuleFetch(p *Program, r *Reporter, g *c11Flow) {
	const rule = "X-fetch"
	fetchIface := p.Iface("pkg/blob", "Fetcher")
	fetchFn, _ := p.MethodOf(g.storeType, fetchIface.Method(0).Name())
	if fetchFn == nil || fetchFn.Blocks == nil {
		brokenf("anchor unresolved: %s.%s method of blob.Fetcher", g.storeType.Obj().Name(), fetchIface.Method(0).Name())
	}
	if len(g.encCalls) != 1 || len(g.decCalls) != 1 {
		r.Undecided(rule, c11Rel+"#age-call-sites", "?", fmt.Sprintf("expected exactly one age.Encrypt and one age.Decrypt call site in the package, found %d/%d: cannot identify the encrypt/decrypt helpers by role", len(g.encCalls), len(g.decCalls)))
		r.Floor(rule, 10)
		return
	}
	ro, ok := g.roles()
	if !ok {
		r.Undecided(rule, c11Rel+"#crypto-helper-roles", p.Pos(g.decCalls[0].Pos()), "cannot identify which parameters of the functions calling age.Encrypt/age.Decrypt (or of their only callers) are the ciphertext and plaintext buffers")
		r.Floor(rule, 10)
		return
	}
	encFn, decFn := ro.encFn, ro.decFn
	fk := FuncKey(fetchFn)

	// --- Fetch (effective body: helpers it calls are followed, the crypto helpers are not entered)
	body := g.effCalls(fetchFn, ro.stop(), false)
	var F, dec *c11ECall
	for i := range body {
		e := &body[i]
		if !e.chain.sync() || e.Value() == nil {
			continue
		}
		if g.isSink(e.CallSite) {
			if out := ResultValue(e.Value(), 0); out != nil && c11Implements(out.Type(), g.readerIface) {
				if F != nil {
					r.Undecided(rule, fk+"#wrapped-fetch", p.Pos(e.Pos()), "more than one read from a wrapped store in Fetch")
				}
				F = e
			}
		}
		if e.Callee() == decFn {
			dec = e
		}
	}
	isHashMatches := func(c CallSite) bool { return c.IsStatic("perkeep.org/pkg/blob", "Ref", "HashMatches") }
	exits := g.successExits(fetchFn, nil)
	if F == nil || dec == nil {
		r.Undecided(rule, fk+"#shape", p.Pos(fetchFn.Pos()), "neither Fetch nor the helpers it calls read from a wrapped store and call the decrypt helper: cannot decide the authentication order")
	} else {
		fReader := ResultValue(F.Value(), 0)
		fRef := g.refArg(p, F.CallSite)
		cipherArg := dec.Value().Call.Args[ro.decCipherIdx]
		plainArg := dec.Value().Call.Args[ro.decPlainIdx]
		// hashCheck: the exit is guarded by HashMatches()==true on the fetched ref, the hash
		// having been fed (before the comparison) from the reader the store returned
		type hashRes struct {
			ok   bool
			why  string
			by   string
			fed  bool
			rank int
		}
		hashCheck := func(e c11Exit) hashRes {
			best := hashRes{why: "a success return of Fetch is not dominated by blob.Ref.HashMatches()==true: ciphertext swapped for another stored blob (or corrupted in a way age does not see, e.g. a different valid blob) would be returned"}
			for i := range body {
				H := body[i]
				if !isHashMatches(H.CallSite) || H.Value() == nil {
					continue
				}
				if ok, _ := g.holds(c11CallEvent(H, c11True), e.at, 0); !ok {
					continue
				}
				if fRef == nil || !g.same(H.Args()[0], H.chain, fRef, F.chain) {
					if best.rank < 1 {
						best = hashRes{rank: 1, why: "the HashMatches that guards the success return is not called on the ref that was fetched from the wrapped store"}
					}
					continue
				}
				h := H.Args()[1]
				var copyCall *c11ECall
				fed := false
				for j := range body {
					c := body[j]
					if g.followable(c.Callee()) || c.Instr == H.Instr || c.Instr == F.Instr {
						continue
					}
					if ok, _ := g.holds(c11CallEvent(c, c11Ran), H.at(), 0); !ok {
						continue
					}
					readsStore, feedsHash, fillsBuf := false, false, false
					for _, a := range c.Args() {
						if g.cflows(fReader, F.chain, a, c.chain, c11FwdKinds) {
							readsStore = true
						}
						if g.cflows(h, H.chain, a, c.chain, c11FwdKinds) {
							feedsHash = true
						}
						if g.cflows(cipherArg, dec.chain, a, c.chain, c11FwdKinds) {
							fillsBuf = true
						}
					}
					if readsStore && feedsHash && (copyCall == nil || fillsBuf) {
						copyCall = &body[j]
						fed = fillsBuf
					}
				}
				if copyCall == nil {
					if best.rank < 2 {
						best = hashRes{rank: 2, why: "HashMatches guards the success return, but no call before it combines the reader returned by the wrapped store with that hash: the digest compared is not that of the bytes read"}
					}
					continue
				}
				return hashRes{ok: true, by: copyCall.CalleeKey() + copyCall.chain.via(), fed: fed}
			}
			return best
		}
		// index look-ups of the requested ref
		var lookups []c11ECall
		for _, e := range body {
			if rt := e.RecvType(); rt == nil || !c11Implements(rt, g.kvIface) || e.MethodName() != "Get" || e.Value() == nil || len(e.Args()) < 2 {
				continue
			}
			if g.dependsOn(e.Args()[1], e.chain, func(v ssa.Value) bool {
				prm, ok := v.(*ssa.Parameter)
				return ok && prm.Parent() == fetchFn && prm != fetchFn.Params[0] && !c11IsContext(prm.Type())
			}) {
				lookups = append(lookups, e)
			}
		}
		isSinkValue := func(v ssa.Value) bool {
			call, ok := v.(*ssa.Call)
			return ok && g.isSink(CallSite{call.Parent(), call})
		}
		for _, x := range exits {
			site := p.Pos(x.ret.Pos())
			// (a) ciphertext digest
			var hr hashRes
			okHash, _ := g.exitOK(x, 0, func(e c11Exit) (bool, string) {
				res := hashCheck(e)
				if res.ok || hr.why == "" {
					hr = res
				}
				return res.ok, res.why
			})
			if !okHash {
				r.Violation(rule, fk+"#success-return#hash-checked", site, hr.why)
			} else {
				r.OK(rule, fk+"#success-return#hash-checked", site, "dominated by HashMatches()==true on the fetched ref, with the hash fed from the wrapped store's reader by "+hr.by+" before the comparison")
				// (b) decrypt of the same bytes
				okFed, _ := g.exitOK(x, 0, func(e c11Exit) (bool, string) {
					res := hashCheck(e)
					return res.ok && res.fed, ""
				})
				r.Check(okFed, rule, fk+"#success-return#decrypts-read-bytes", site,
					"the buffer handed to the decrypt helper is filled by the same copy that feeds the hash",
					"the ciphertext buffer handed to the decrypt helper is not filled by the copy that feeds the checked hash: the bytes decrypted are not the bytes whose digest was compared")
			}
			// (c) decrypt success
			ok, why := g.exitOK(x, 0, func(e c11Exit) (bool, string) { return g.holds(c11CallEvent(*dec, c11Done), e.at, 0) })
			r.Check(ok, rule, fk+"#success-return#decrypt-ok", site,
				"dominated by the success edge of "+shortFn(decFn)+dec.chain.via(),
				"a success return of Fetch is not on the success edge of "+shortFn(decFn)+" ("+why+"): unauthenticated or undecryptable ciphertext would be returned as a blob")
			// (d) reader and size provenance
			if len(x.results) == 3 {
				ok, _ := g.exitOK(x, 0, func(e c11Exit) (bool, string) {
					return len(e.results) == 3 && g.cflows(plainArg, dec.chain, e.results[0], e.at.chain, c11FwdKinds), ""
				})
				r.Check(ok, rule, fk+"#success-return#returns-decrypt-output", site,
					"the returned reader is built from the buffer the decrypt helper wrote the plaintext to",
					"the reader returned on success is not built from the plaintext buffer of the decrypt helper")
				ok, _ = g.exitOK(x, 0, func(e c11Exit) (bool, string) {
					if len(e.results) != 3 || fRef == nil {
						return false, ""
					}
					for _, L := range lookups {
						isL := func(v ssa.Value) bool { return v == ssa.Value(L.Value()) }
						if g.dependsOn(fRef, F.chain, isL) && g.dependsOn(e.results[1], e.at.chain, isL) && !g.dependsOn(e.results[1], e.at.chain, isSinkValue) {
							return true, ""
						}
					}
					return false, ""
				})
				r.Check(ok, rule, fk+"#success-return#indexed-size-and-ref", site,
					"the ref fetched from the wrapped store and the returned size both come from one index look-up of the requested ref",
					"the returned size and the fetched encrypted ref do not come from the same index look-up of the requested plaintext ref")
			}
		}
		if len(exits) == 0 {
			r.Violation(rule, fk+"#success-return", p.Pos(fetchFn.Pos()), "Fetch has no success return")
		}
	}

	// --- decrypt helper
	dk := FuncKey(decFn)
	decBody := g.effCalls(decFn, nil, false)
	decCall := ro.decCall
	decOut := ResultValue(decCall.Value(), 0)
	var decCopy *c11ECall
	for i := range decBody {
		c := decBody[i]
		if c.Value() == nil || c.Instr == decCall.Instr || g.followable(c.Callee()) {
			continue
		}
		src, dst := false, false
		for _, a := range c.Args() {
			if decOut != nil && g.sameNode(a, c.chain, decOut, decCall.chain) {
				src = true
			}
			if g.sameNode(a, c.chain, decFn.Params[ro.decPlainIdx], nil) {
				dst = true
			}
		}
		if src && dst {
			decCopy = &decBody[i]
		}
	}
	// version byte written by the encrypt helper (or, when the helper was split, by every caller before it)
	encBody := g.effCalls(encFn, nil, false)
	encCall := ro.encCall
	encVersion, encVerWhy := g.versionWritten(ro, encBody)
	for _, x := range g.successExits(decFn, nil) {
		site := p.Pos(x.ret.Pos())
		ok, why := g.exitOK(x, 0, func(e c11Exit) (bool, string) { return g.holds(c11CallEvent(decCall, c11Done), e.at, 0) })
		r.Check(ok, rule, dk+"#success-return#age-decrypt-ok", site, "dominated by the success edge of age.Decrypt", "a success return of the decrypt helper is not on the success edge of age.Decrypt ("+why+")")
		if decCopy == nil {
			r.Violation(rule, dk+"#success-return#copy-ok", site, "no call copies the reader returned by age.Decrypt into the plaintext parameter")
		} else {
			ok, why = g.exitOK(x, 0, func(e c11Exit) (bool, string) { return g.holds(c11CallEvent(*decCopy, c11Done), e.at, 0) })
			r.Check(ok, rule, dk+"#success-return#copy-ok", site,
				"dominated by the success edge of the copy of age's output (age authenticates each chunk while it is read)",
				"a success return of the decrypt helper is not on the success edge of the copy of age.Decrypt's output ("+why+"): age reports tampering and truncation as a read error, which would be ignored")
		}
		// version byte
		okVer, verDetail := g.versionGuard(ro, x, encVersion, encVerWhy)
		r.Check(okVer, rule, dk+"#success-return#version-byte", site, verDetail, verDetail+": every stored blob would be refused (or foreign formats accepted)")
	}

	// --- encrypt helper
	ek := FuncKey(encFn)
	encW := ResultValue(encCall.Value(), 0)
	var encCopy, encClose *c11ECall
	for i := range encBody {
		c := encBody[i]
		if c.Value() == nil || c.Instr == encCall.Instr || encW == nil || g.followable(c.Callee()) {
			continue
		}
		args := c.Args()
		if len(args) == 1 && g.sameNode(args[0], c.chain, encW, encCall.chain) && c.MethodName() == "Close" {
			encClose = &encBody[i]
			continue
		}
		dst, src := false, false
		for _, a := range args {
			if g.sameNode(a, c.chain, encW, encCall.chain) {
				dst = true
			}
			for i, prm := range encFn.Params {
				if i != ro.encCipherIdx && c11Objecty(prm.Type()) && NamedOf(prm.Type()) != g.storeType && g.sameNode(a, c.chain, prm, nil) {
					src = true
				}
			}
		}
		if dst && src {
			encCopy = &encBody[i]
		}
	}
	for _, x := range g.successExits(encFn, nil) {
		site := p.Pos(x.ret.Pos())
		if encCopy == nil {
			r.Violation(rule, ek+"#success-return#copy-ok", site, "no call copies the plaintext parameter into the writer returned by age.Encrypt")
		} else {
			ok, why := g.exitOK(x, 0, func(e c11Exit) (bool, string) { return g.holds(c11CallEvent(*encCopy, c11Done), e.at, 0) })
			r.Check(ok, rule, ek+"#success-return#copy-ok", site, "dominated by the success edge of the copy into the age writer", "a success return of the encrypt helper is not on the success edge of the copy into the age writer ("+why+"): a partially encrypted blob would be stored and acknowledged")
		}
		if encClose == nil {
			r.Violation(rule, ek+"#success-return#close-ok", site, "the writer returned by age.Encrypt is never closed: the final chunk is not flushed and the blob cannot be decrypted")
		} else {
			ok, why := g.exitOK(x, 0, func(e c11Exit) (bool, string) { return g.holds(c11CallEvent(*encClose, c11Done), e.at, 0) })
			r.Check(ok, rule, ek+"#success-return#close-ok", site, "dominated by the success edge of Close on the age writer (flushes the final authenticated chunk)", "a success return of the encrypt helper is not on the success edge of Close on the age writer ("+why+"): the final chunk may be missing, the stored blob then fails authentication on every fetch")
		}
	}
	r.Floor(rule, 10)
}

// versionWritten: the constant byte written into the ciphertext buffer before
// the age stream: by a call in the encrypt helper's effective body that precedes
// age.Encrypt, or - when the helper was split off below that write - by every
// caller of the helper before it calls it.
func (g *c11Flow) versionWritten(ro c11Roles, encBody []c11ECall) (*ssa.Const, string) {
	cipher := ro.encFn.Params[ro.encCipherIdx]
	var found *ssa.Const
	for _, c := range encBody {
		args := c.Args()
		if len(args) != 2 || g.followable(c.Callee()) || !g.sameNode(args[0], c.chain, cipher, nil) {
			continue
		}
		k, isConst := args[1].(*ssa.Const)
		if !isConst {
			continue
		}
		if ok, _ := g.holds(c11CallEvent(c, c11Ran), ro.encCall.at(), 0); ok {
			found = k
		}
	}
	if found != nil {
		return found, ""
	}
	sites, closed := g.closedCallers(ro.encFn)
	if !closed || len(sites) == 0 {
		return nil, "the encrypt helper writes no constant version byte before the age stream"
	}
	for _, cs := range sites {
		var here *ssa.Const
		for _, c := range g.effCalls(cs.Fn, ro.stop(), false) {
			args := c.Args()
			if len(args) != 2 || g.followable(c.Callee()) || !g.same(args[0], c.chain, cs.Args()[ro.encCipherIdx], nil) {
				continue
			}
			if k, isConst := args[1].(*ssa.Const); isConst {
				if ok, _ := g.holds(c11CallEvent(c, c11Ran), c11At{in: cs.Instr}, 0); ok {
					here = k
				}
			}
		}
		if here == nil || found != nil && here.Int64() != found.Int64() {
			return nil, "not every caller of the encrypt helper writes the same constant version byte before the age stream (" + shortFn(cs.Fn) + ")"
		}
		found = here
	}
	return found, ""
}

// versionEvents lists the comparisons, in the effective body of root, of a
// byte read from the decrypt helper's ciphertext with a constant: the event is
// "the byte was equal to the constant".
func (g *c11Flow) versionEvents(ro c11Roles, funcs []c11Root) (evs []c11Event, consts []*ssa.Const) {
	cipher := ro.decFn.Params[ro.decCipherIdx]
	for _, f := range funcs {
		for _, b := range f.fn.Blocks {
			for _, in := range b.Instrs {
				bo, isBin := in.(*ssa.BinOp)
				if !isBin || (bo.Op != token.EQL && bo.Op != token.NEQ) {
					continue
				}
				k, isConst := bo.Y.(*ssa.Const)
				other := bo.X
				if !isConst {
					k, isConst = bo.X.(*ssa.Const)
					other = bo.Y
				}
				if !isConst || k.Value == nil {
					continue
				}
				if bt, ok := other.Type().Underlying().(*types.Basic); !ok || bt.Kind() != types.Uint8 {
					continue
				}
				if !g.flows(cipher, other, c11AllKinds) {
					continue
				}
				want := c11True
				if bo.Op == token.NEQ {
					want = c11False
				}
				evs = append(evs, c11Event{at: c11At{chain: f.chain, in: bo}, want: want, val: bo})
				consts = append(consts, k)
			}
		}
	}
	return evs, consts
}

// versionGuard: success exit x of the decrypt helper is guarded by "version
// byte == the constant the encrypt side writes": inside the helper's effective
// body, or - when the helper was split off below the check - at every call
// site of the helper.
func (g *c11Flow) versionGuard(ro c11Roles, x c11Exit, encVersion *ssa.Const, encVerWhy string) (bool, string) {
	detail := "no comparison of a byte read from the ciphertext against a constant guards the success return"
	judge := func(k *ssa.Const) (bool, string) {
		switch {
		case encVersion == nil:
			return false, encVerWhy
		case encVersion.Int64() != k.Int64():
			return false, fmt.Sprintf("the decrypt helper accepts version byte %d but the encrypt helper writes %d", k.Int64(), encVersion.Int64())
		}
		return true, fmt.Sprintf("guarded by version byte == %d, the constant the encrypt helper writes first", k.Int64())
	}
	evs, consts := g.versionEvents(ro, g.effFuncs(ro.decFn, nil, false))
	for i, ev := range evs {
		ev := ev
		ok, _ := g.exitOK(x, 0, func(e c11Exit) (bool, string) { return g.holds(ev, e.at, 0) })
		if ok {
			return judge(consts[i])
		}
		// the opposite branch?
		opp := ev
		if ev.want == c11True {
			opp.want = c11False
		} else {
			opp.want = c11True
		}
		if ok, _ := g.holds(opp, x.at, 0); ok {
			detail = "the success return is on the edge where the version byte differs from the constant"
		}
	}
	if len(evs) > 0 {
		return false, detail
	}
	// lifted: every caller checks before calling the helper
	sites, closed := g.closedCallers(ro.decFn)
	if !closed || len(sites) == 0 {
		return false, detail
	}
	var res string
	for _, cs := range sites {
		evs, consts := g.versionEvents(ro, g.effFuncs(cs.Fn, ro.stop(), false))
		okHere := false
		for i, ev := range evs {
			if ok, _ := g.holds(ev, c11At{in: cs.Instr}, 0); ok {
				ok2, d := judge(consts[i])
				if !ok2 {
					return false, d
				}
				okHere, res = true, d+" (checked by the caller "+shortFn(cs.Fn)+" before the decrypt helper is called)"
			}
		}
		if !okHere {
			return false, detail + " (nor the call of the decrypt helper in " + shortFn(cs.Fn) + ")"
		}
	}
	return true, res
}

// ---------------------------------------------------------------------------
// X-compact

func c11StoreOverlap(a, b string) bool {
	if a == "" || b == "" {
		return false
	}
	for _, x := range strings.Split(a, "|") {
		if strings.Contains("|"+b+"|", "|"+x+"|") {
			return true
		}
	}
	return false
}

func c11RuleCompact(p *Program, r *Reporter, g *c11Flow) {
	const rule = "X-compact"
	if len(g.encCalls) != 1 || len(g.decCalls) != 1 {
		r.Undecided(rule, c11Rel+"#age-call-sites", "?", "cannot identify the encrypt/decrypt helpers by role")
		r.Floor(rule, 12)
		return
	}
	ro, ok := g.roles()
	if !ok {
		r.Undecided(rule, c11Rel+"#crypto-helper-roles", "?", "cannot identify the encrypt/decrypt helpers and their buffer parameters by role")
		r.Floor(rule, 12)
		return
	}
	encFn, decFn := ro.encFn, ro.decFn
	stop := ro.stop()
	removerIface := p.Iface("pkg/blobserver", "BlobRemover")
	removeName := removerIface.Method(0).Name()

	// --- (1) compaction: upload before delete. The compaction function is found by role: the
	// function whose effective body holds the removal and an upload to the same store (the
	// function containing the removal, or - when the removal was split off into a helper -
	// its callers)
	nRemove := 0
	for _, fn := range g.fns {
		for _, rm := range g.sinksIn(fn, false) {
			if rm.c.MethodName() != removeName {
				continue
			}
			nRemove++
			hasUploadIn := func(root *ssa.Function, syncOnly bool) bool {
				for _, e := range g.effCalls(root, stop, false) {
					if e.Value() != nil && (!syncOnly || e.chain.sync()) && g.isSink(e.CallSite) && g.contentArg(e.CallSite) != nil && c11StoreOverlap(g.storeOf(e), rm.store) {
						return true
					}
				}
				return false
			}
			// an upload that runs in a goroutine started from the function (the packer started by
			// recording the new meta blob) can never be what the removal waits for
			hasUpload := func(root *ssa.Function) bool { return hasUploadIn(root, false) }
			hasSyncUpload := func(root *ssa.Function) bool { return hasUploadIn(root, true) }
			// the compaction function also builds what it uploads: while the uploaded buffer or the
			// plaintext that is encrypted into it is handed in by the caller (the function was split
			// and this is its second half), the caller is the compaction function
			isParamOf := func(v ssa.Value, chain c11Chain, root *ssa.Function) bool {
				for rv := range c11BufferRoots(v) {
					cv, _ := g.canon(rv, chain, false)
					if prm, ok := cv.(*ssa.Parameter); ok && prm.Parent() == root {
						return true
					}
				}
				return false
			}
			complete := func(root *ssa.Function) bool {
				body := g.effCalls(root, stop, false)
				found := false
				for _, u := range body {
					if u.Value() == nil || !u.chain.sync() || !g.isSink(u.CallSite) || g.contentArg(u.CallSite) == nil || !c11StoreOverlap(g.storeOf(u), rm.store) {
						continue
					}
					found = true
					if isParamOf(g.contentArg(u.CallSite), u.chain, root) {
						return false
					}
					for _, c := range body {
						if c.Callee() != encFn || c.Value() == nil {
							continue
						}
						feeds := false
						for _, a := range u.Args() {
							if g.wrappedStore(g.node(a)) == "" && g.cflows(c.Value().Call.Args[ro.encCipherIdx], c.chain, a, u.chain, c11FwdKinds) {
								feeds = true
							}
						}
						if feeds && isParamOf(c.Value().Call.Args[ro.encPlainIdx], c.chain, root) {
							return false
						}
					}
				}
				return found
			}
			roots := g.rootsOf(fn, complete)
			if len(roots) == 0 || !roots[0].found {
				roots = g.rootsOf(fn, hasSyncUpload)
			}
			if len(roots) == 0 || !roots[0].found {
				roots = g.rootsOf(fn, hasUpload)
			}
			for _, rt := range roots {
				c11CompactAt(p, r, g, ro, rt, rm, removeName)
			}
		}
	}
	if nRemove == 0 {
		r.Note("no removal from a wrapped store found: compaction rules have no instance")
	}

	// --- (2) restart path
	// the enumeration: the call that hands a wrapped store and a package function (the per-blob
	// callback) to a callee outside the package
	var enumSink *c11Sink
	for _, fn := range g.fns {
		for _, s := range g.sinksIn(fn, false) {
			s := s
			if len(g.funcArgs(s.c)) > 0 {
				if enumSink != nil && TopFunc(enumSink.c.Fn) != TopFunc(fn) {
					r.Undecided(rule, c11Rel+"#scan-function", p.Pos(s.c.Pos()), "more than one function enumerates a wrapped store with a callback")
				}
				enumSink = &s
			}
		}
	}
	if enumSink == nil {
		r.Violation(rule, c11Rel+"#restart-scan", "?", "no function enumerates a wrapped store with a callback any more: the meta index cannot be rebuilt from the wrapped stores")
		r.Floor(rule, 12)
		return
	}
	// constructors: functions that return a storage they (or a helper) allocated and that can be
	// entered from outside the package
	storageResult := func(fn *ssa.Function) int {
		if fn.Parent() != nil {
			return -1
		}
		for _, ri := range Returns(fn) {
			for i, res := range ri.Results {
				o, _ := g.canon(res, nil, false)
				if al, ok := o.(*ssa.Alloc); ok && NamedOf(al.Type().(*types.Pointer).Elem()) == g.storeType {
					if _, isPtr := al.Type().(*types.Pointer).Elem().(*types.Pointer); !isPtr {
						return i
					}
				}
			}
		}
		return -1
	}
	// scan function: the function around the enumeration that reports its outcome to its caller -
	// the function holding the enumeration or, while that one returns no error or is started
	// with go/defer from its single call site (outside a constructor), its caller
	scanFn := TopFunc(enumSink.c.Fn)
	for i := 0; i < c11MaxDepth; i++ {
		sites, closed := g.closedCallers(scanFn)
		if !closed || len(sites) != 1 || (ErrResultIndex(scanFn) >= 0 && sites[0].Value() != nil) {
			break
		}
		up := TopFunc(sites[0].Fn)
		if up == scanFn || storageResult(up) >= 0 {
			break
		}
		scanFn = up
	}
	sk := FuncKey(scanFn)
	metaStore := enumSink.store
	// (2a) constructor: a store is returned only after a successful scan
	nCtor := 0
	for _, fn := range g.fns {
		si := storageResult(fn)
		if si < 0 {
			continue
		}
		if sites, closed := g.closedCallers(fn); closed && len(sites) > 0 {
			continue // a helper of a constructor
		}
		nCtor++
		body := g.effCalls(fn, stop, false)
		for _, x := range g.successExits(fn, nil) {
			if si < len(x.results) && IsNilConst(x.results[si]) {
				continue
			}
			site := p.Pos(x.ret.Pos())
			called := false
			ok, why := g.exitOK(x, 0, func(e c11Exit) (bool, string) {
				why := "the store is returned without " + shortFn(scanFn) + " having been called on it"
				for _, c := range body {
					if c.Callee() != scanFn || c.Value() == nil || len(c.Args()) == 0 {
						continue
					}
					if si >= len(e.results) || !g.same(c.Args()[0], c.chain, e.results[si], e.at.chain) {
						continue
					}
					called = true
					ok, w := g.holds(c11CallEvent(c, c11Done), e.at, 0)
					if ok {
						return true, ""
					}
					why = w
				}
				return false, why
			})
			if !called {
				r.Violation(rule, FuncKey(fn)+"#success-return#scan-ok", site, "the constructor returns a store without calling "+shortFn(scanFn)+" on it: after a restart with an empty meta index every stored blob is invisible")
				continue
			}
			r.Check(ok, rule, FuncKey(fn)+"#success-return#scan-ok", site,
				"dominated by the success edge of "+shortFn(scanFn)+" on the new store",
				"the constructor can return a store although "+shortFn(scanFn)+" did not succeed ("+why+"): blobs whose meta was not read are invisible and would be stored twice")
		}
	}
	if nCtor == 0 {
		r.Violation(rule, c11Rel+"#constructor", "?", "no function constructs the storage type")
	}

	// (2b) scan: every enumerated ref is fetched from the same store and handed to the process function
	var lit *ssa.Function
	if cl := g.funcArgs(enumSink.c); len(cl) == 1 {
		lit = cl[0]
	}
	var fetchSink *c11ECall
	if lit != nil {
		litBody := g.effCalls(lit, stop, true)
		for i := range litBody {
			s := litBody[i]
			if s.Value() == nil || !g.isSink(s.CallSite) || g.storeOf(s) != metaStore {
				continue
			}
			if out := ResultValue(s.Value(), 0); out != nil && c11Implements(out.Type(), g.readerIface) {
				ref := g.refArg(p, s.CallSite)
				for _, prm := range lit.Params {
					if ref != nil && g.flows(prm, ref, c11FwdKinds) {
						fetchSink = &litBody[i]
					}
				}
			}
		}
	}
	r.Check(fetchSink != nil, rule, sk+"#enumerate-callback#fetches-each", p.Pos(enumSink.c.Pos()),
		"the enumeration callback fetches the ref it is given from the same wrapped store ("+metaStore+")",
		"the callback of the start-up enumeration of "+metaStore+" does not fetch the enumerated ref from that store: meta blobs are listed but never read")
	// process function, by role: the innermost package function, called from the scan function's
	// effective body, whose own effective body both calls the decrypt helper and writes the meta
	// index (and does not hold the enumeration itself)
	isSet := map[ssa.CallInstruction]bool{}
	for _, c := range g.indexSets {
		isSet[c.Instr] = true
	}
	decrypts := func(fn *ssa.Function) bool {
		dec, set := false, false
		for _, e := range g.effCalls(fn, stop, true) {
			if e.Callee() == decFn {
				dec = true
			}
			if isSet[e.Instr] {
				set = true
			}
			if e.Instr == enumSink.c.Instr {
				return false
			}
		}
		return dec && set
	}
	var procCall *c11ECall
	var processFn *ssa.Function
	scanBody := g.effCalls(scanFn, stop, true)
	for i := range scanBody {
		c := scanBody[i]
		callee := c.Callee()
		// (a function literal bound to a local and called per meta blob plays the role as well as a method)
		if !g.followable(callee) || callee == decFn || callee == encFn || c.Value() == nil || !decrypts(callee) {
			continue
		}
		if procCall == nil || len(c.chain) > len(procCall.chain) {
			procCall, processFn = &scanBody[i], callee
		}
	}
	if processFn == nil {
		selfDecrypts := false
		for _, c := range scanBody {
			if c.Callee() == decFn {
				selfDecrypts = true
			}
		}
		if selfDecrypts {
			r.Undecided(rule, sk+"#process-each", p.Pos(scanFn.Pos()), shortFn(scanFn)+" decrypts the meta blobs itself (no separate function decrypts one meta blob and writes its rows): this inlined form is not followed")
		} else {
			r.Violation(rule, sk+"#process-each", p.Pos(scanFn.Pos()), shortFn(scanFn)+" hands the fetched meta blobs to no function of the package that decrypts them: the index cannot be rebuilt from stored meta blobs")
		}
		r.Floor(rule, 12)
		return
	}
	pk := FuncKey(processFn)
	{
		fed := false
		if fetchSink != nil {
			rd := ResultValue(fetchSink.Value(), 0)
			for _, a := range procCall.Args() {
				if NamedOf(a.Type()) != g.storeType && g.flows(rd, a, c11FwdKinds) {
					fed = true
				}
			}
		}
		r.Check(fed, rule, sk+"#process-each", p.Pos(procCall.Pos()),
			"the bytes handed to "+shortFn(processFn)+" flow from the reader the wrapped store returned for the enumerated ref",
			"the bytes handed to "+shortFn(processFn)+" do not come from the fetch of the enumerated meta blob")
		levels, why := g.afterFailure(procCall.at())
		if why != "" {
			r.Violation(rule, sk+"#process-failure-fails-scan", p.Pos(procCall.Pos()), "failure of "+shortFn(processFn)+" cannot fail the scan: "+why)
		} else {
			detail := ""
			top := levels[len(levels)-1]
			leaks := top.fn == scanFn && len(top.silent) > 0
			if leaks {
				detail = fmt.Sprintf("when %s fails, the return at line %d may still report success: a corrupt or undecryptable meta blob is skipped silently and the blobs it describes disappear", shortFn(processFn), p.Fset.Position(top.silent[0].Pos()).Line)
			}
			r.Check(!leaks, rule, sk+"#process-failure-fails-scan", p.Pos(procCall.Pos()),
				"every path after a failed "+shortFn(processFn)+" returns a non-nil error", detail)
		}
	}

	// (2c) process: success only after decrypt; index rows computed from the decrypted text; Set failure fails
	procBody := g.effCalls(processFn, stop, false)
	var decIn *c11ECall
	for i := range procBody {
		if c := procBody[i]; c.Callee() == decFn && c.Value() != nil && c.chain.sync() {
			decIn = &procBody[i]
		}
	}
	if decIn == nil {
		r.Undecided(rule, pk+"#shape", p.Pos(processFn.Pos()), "the decrypt helper is not called (other than in a goroutine or deferred) in "+shortFn(processFn)+" or the helpers it calls")
	} else {
		plain := decIn.Value().Call.Args[ro.decPlainIdx]
		hdrEvs, hdrs := g.headerEvents(g.effFuncs(processFn, stop, false), plain, decIn.chain)
		for _, x := range g.successExits(processFn, nil) {
			ok, why := g.exitOK(x, 0, func(e c11Exit) (bool, string) { return g.holds(c11CallEvent(*decIn, c11Done), e.at, 0) })
			r.Check(ok, rule, pk+"#success-return#decrypt-ok", p.Pos(x.ret.Pos()),
				"dominated by the success edge of the decrypt helper",
				"a meta blob is accepted although decryption may have failed ("+why+")")
			// header constant
			hdr, okHdr := "", false
			for i, ev := range hdrEvs {
				ev := ev
				if ok, _ := g.exitOK(x, 0, func(e c11Exit) (bool, string) { return g.holds(ev, e.at, 0) }); ok {
					hdr, okHdr = hdrs[i], true
				}
			}
			if !okHdr {
				r.Violation(rule, pk+"#success-return#header", p.Pos(x.ret.Pos()), "the success return is not guarded by a comparison of the first decrypted line with a constant header")
			} else {
				c11CheckWriters(p, r, g, rule, pk, hdr, ro, metaStore)
			}
		}
		nSet := 0
		for _, c := range procBody {
			if !isSet[c.Instr] || c.Value() == nil {
				continue
			}
			nSet++
			args := c.Args()
			r.Check(g.cflows(plain, decIn.chain, args[1], c.chain, c11FwdKinds) && g.cflows(plain, decIn.chain, args[2], c.chain, c11FwdKinds), rule, pk+"#index.Set#from-decrypted", p.Pos(c.Pos()),
				"key and value of the index row flow from the decrypted meta text",
				"the index row written at start-up is not computed from the decrypted meta blob")
			looped := inLoop(c.Block())
			for _, l := range c.chain {
				if inLoop(l.Block()) {
					looped = true
				}
			}
			r.Check(looped, rule, pk+"#index.Set#per-line", p.Pos(c.Pos()),
				"the index write sits in the line loop", "the index write is not inside a loop: only one row per meta blob would be restored, packed meta blobs lose all others")
			levels, why := g.afterFailure(c.at())
			if why != "" {
				r.Violation(rule, pk+"#index.Set#failure-fails", p.Pos(c.Pos()), "a failed index write cannot fail "+shortFn(processFn)+": "+why)
			} else {
				top := levels[len(levels)-1]
				r.Check(!(top.fn == processFn && len(top.silent) > 0), rule, pk+"#index.Set#failure-fails", p.Pos(c.Pos()),
					"every path after a failed index write returns a non-nil error",
					"after a failed index write "+shortFn(processFn)+" may still return nil: the row is lost and the blob invisible until the next restart")
			}
		}
		if nSet == 0 {
			r.Violation(rule, pk+"#index.Set", p.Pos(processFn.Pos()), shortFn(processFn)+" no longer writes the index")
		}
	}
	r.Floor(rule, 14)
}

// c11CompactAt checks one removal from a wrapped store, seen from the compaction
// function rt.fn (the removal sits in rt.fn or in a helper reached through rt.chain).
func c11CompactAt(p *Program, r *Reporter, g *c11Flow, ro c11Roles, rt c11Root, rm c11Sink, removeName string) {
	const rule = "X-compact"
	fk := FuncKey(rt.fn)
	site := p.Pos(rm.c.Pos())
	rmE := c11ECall{rm.c, rt.chain}
	rmAt := rmE.at()
	rmStore := g.storeOf(rmE)
	body := g.effCalls(rt.fn, ro.stop(), false)
	var upload *c11ECall
	whyUp := ""
	for i := range body {
		u := body[i]
		if u.Value() == nil || !g.isSink(u.CallSite) || g.contentArg(u.CallSite) == nil || !c11StoreOverlap(g.storeOf(u), rmStore) {
			continue
		}
		ok, w := g.holds(c11CallEvent(u, c11Done), rmAt, 0)
		if ok {
			upload = &body[i]
		} else if whyUp == "" {
			whyUp = " (" + c11CalleeName(u.CallSite) + u.chain.via() + ": " + w + ")"
		}
	}
	if upload == nil {
		r.Violation(rule, fk+"#"+rm.store+"."+removeName+"#after-upload", site,
			"blobs are removed from the wrapped store "+rm.store+" without being dominated by the success edge of an upload to that store (in the same function, a helper it calls or - the removal being in a helper - its callers)"+whyUp+": if the packed meta blob was not stored, the only copies of these rows are deleted and the plaintext->ciphertext mapping is lost")
		return
	}
	r.OK(rule, fk+"#"+rm.store+"."+removeName+"#after-upload", site, "dominated by the success edge of "+c11CalleeName(upload.CallSite)+upload.chain.via()+" to the same store")
	// the upload is of successfully encrypted content
	var enc *c11ECall
	for i := range body {
		c := body[i]
		if c.Callee() != ro.encFn || c.Value() == nil {
			continue
		}
		for _, a := range upload.Args() {
			if g.wrappedStore(g.node(a)) == "" && g.cflows(c.Value().Call.Args[ro.encCipherIdx], c.chain, a, upload.chain, c11FwdKinds) {
				enc = &body[i]
			}
		}
	}
	if enc == nil {
		r.Undecided(rule, fk+"#"+rm.store+"."+removeName+"#upload-encrypted-ok", site, "the uploaded replacement is not encrypted by a call of the encrypt helper in this function or a helper it calls")
	} else {
		ok, why := g.holds(c11CallEvent(*enc, c11Done), upload.at(), 0)
		r.Check(ok, rule, fk+"#"+rm.store+"."+removeName+"#upload-encrypted-ok", site,
			"the upload is dominated by the success edge of the encrypt helper for the uploaded buffer",
			"the replacement blob is uploaded although the encrypt helper may have failed ("+why+"): a truncated packed meta blob replaces the small ones")
	}
	// a failed index look-up (of a row that goes into the packed blob) never reaches the removal
	for _, c := range body {
		if rt := c.RecvType(); rt == nil || !c11Implements(rt, g.kvIface) || c.MethodName() != "Get" || c.Value() == nil {
			continue
		}
		if enc != nil {
			if out := ResultValue(c.Value(), 0); out == nil || !g.cflows(out, c.chain, enc.Value().Call.Args[ro.encPlainIdx], enc.chain, c11AllKinds) {
				continue // not a row of the packed blob
			}
		}
		bad := ""
		if _, _, discarded := ErrValue(c.Value()); discarded {
			bad = "the error of the index look-up is discarded"
		} else {
			levels, why := g.afterFailure(c.at())
			if why != "" {
				bad = why
			}
			for _, lv := range levels {
				if t := c11TargetAt(rmAt, lv.fn, lv.chain); t != nil && lv.reach[t] {
					bad = "the removal is reachable from the failure edge of the index look-up"
				}
			}
		}
		r.Check(bad == "", rule, fk+"#"+rm.store+"."+removeName+"#not-after-failed-lookup", p.Pos(c.Pos()),
			"no path from the failure edge of the index look-up reaches the removal",
			bad+": the packed meta blob would lack that row while the small meta blob holding it is deleted")
	}
	c11CompactCoverage(p, r, g, ro, rt, rm, enc)
}

// uploadsTo lists the content values uploaded to the named wrapped store: the
// content argument of every sink on exactly that store, and, for a sink inside a
// forwarding helper whose store parameter may be several stores, the content
// argument at each caller (transitively) that passes exactly that store.
func (g *c11Flow) uploadsTo(store string) []ssa.Value {
	var out []ssa.Value
	var resolve func(fn *ssa.Function, storeVal, content ssa.Value, depth int)
	resolve = func(fn *ssa.Function, storeVal, content ssa.Value, depth int) {
		s := g.wrappedStore(g.node(storeVal))
		if s == store {
			out = append(out, content)
			return
		}
		if !c11StoreOverlap(s, store) {
			return
		}
		wi := g.paramIndexOfNode(fn, g.node(storeVal))
		ci := -1
		for root := range c11BufferRoots(content) {
			if prm, ok := root.(*ssa.Parameter); ok {
				ci = g.paramIndexOfNode(fn, g.node(prm))
			}
		}
		if wi < 0 || fn.Parent() != nil || depth >= c11MaxDepth {
			out = append(out, content) // cannot separate: treat as an upload to this store
			return
		}
		for _, f := range g.fns {
			for _, c := range CallsIn(f, false) {
				if c.Callee() == fn && len(c.Args()) == len(fn.Params) {
					cc := content
					if ci >= 0 {
						cc = c.Args()[ci]
					}
					resolve(f, c.Args()[wi], cc, depth+1)
				}
			}
		}
	}
	for _, fn := range g.fns {
		for _, sk := range g.sinksIn(fn, false) {
			ca := g.contentArg(sk.c)
			if ca == nil {
				continue
			}
			for _, a := range sk.c.Args() {
				if g.wrappedStore(g.node(a)) != "" {
					resolve(fn, a, ca, 0)
					break
				}
			}
		}
	}
	return out
}

// headerEvents lists the comparisons, in an effective body, of a string flowing
// from the decrypted buffer with a non-empty constant: the event is "the string
// was equal to the constant".
func (g *c11Flow) headerEvents(funcs []c11Root, plainBuf ssa.Value, plainChain c11Chain) (evs []c11Event, hdrs []string) {
	for _, f := range funcs {
		for _, b := range f.fn.Blocks {
			for _, in := range b.Instrs {
				bo, ok := in.(*ssa.BinOp)
				if !ok || (bo.Op != token.EQL && bo.Op != token.NEQ) {
					continue
				}
				for _, pair := range [][2]ssa.Value{{bo.X, bo.Y}, {bo.Y, bo.X}} {
					if s, ok := ConstString(pair[1]); ok && s != "" && g.cflows(plainBuf, plainChain, pair[0], f.chain, c11FwdKinds) {
						want := c11True
						if bo.Op == token.NEQ {
							want = c11False
						}
						evs = append(evs, c11Event{at: c11At{chain: f.chain, in: bo}, want: want, val: bo})
						hdrs = append(hdrs, s)
					}
				}
			}
		}
	}
	return evs, hdrs
}

// c11CheckWriters: every encrypt-helper call whose ciphertext ends up in the
// meta store writes a constant starting with the header the parser accepts.
func c11CheckWriters(p *Program, r *Reporter, g *c11Flow, rule, pk, hdr string, ro c11Roles, metaStore string) {
	// content arguments of uploads to the meta store
	metaContents := g.uploadsTo(metaStore)
	n := 0
	for _, fn := range g.fns {
		for _, c := range CallsIn(fn, false) {
			if c.Callee() != ro.encFn || c.Value() == nil {
				continue
			}
			args := c.Value().Call.Args
			toMeta := false
			for _, mc := range metaContents {
				if g.flows(args[ro.encCipherIdx], mc, c11FwdKinds) {
					toMeta = true
				}
			}
			if !toMeta {
				continue
			}
			n++
			// constants flowing into the plaintext buffer(s) of this call
			var consts []string
			for i, a := range args {
				if i == ro.encCipherIdx || !c11Objecty(a.Type()) || NamedOf(a.Type()) == g.storeType {
					continue
				}
				consts = append(consts, c11ConstsWritten(g, a)...)
			}
			ok := false
			for _, k := range consts {
				if strings.HasPrefix(k, hdr) {
					ok = true
				}
			}
			r.Check(ok, rule, FuncKey(fn)+"#meta-writer#header", p.Pos(c.Pos()),
				fmt.Sprintf("the plaintext encrypted for the meta store starts from a constant with the header %q that %s requires", hdr, strings.TrimPrefix(pk, c11Rel+".")),
				fmt.Sprintf("none of the constants written to the meta plaintext (%q) starts with the header %q that the start-up parser requires: meta blobs written here are rejected at the next start", consts, hdr))
		}
	}
	if n == 0 {
		r.Violation(rule, pk+"#meta-writers", "?", "no encrypt-helper call produces content for the meta store")
	}
}

// c11ConstsWritten lists the string constants that are written into buffer buf:
// constant arguments of calls (anywhere in the package) that are handed the
// buffer object itself - the value buf, what it was copied from and what it is
// copied to (a helper's parameter, a helper's result) - and constant (format)
// strings in the backward slice of the value buf was built from.
func c11ConstsWritten(g *c11Flow, buf ssa.Value) []string {
	var out []string
	bn := g.node(buf)
	if bn != nil {
		ident := g.reach([]c11Source{{bn, ""}}, map[c11EdgeKind]bool{c11Copy: true})
		for n := range g.reach([]c11Source{{bn, ""}}, map[c11EdgeKind]bool{c11CopyRev: true}) {
			ident[n] = true
		}
		for _, fn := range g.fns {
			for _, c := range CallsIn(fn, false) {
				if g.followable(c.Callee()) {
					continue
				}
				args := c.Args()
				uses := false
				for _, a := range args {
					if n := g.node(a); n != nil {
						if _, ok := ident[n]; ok {
							uses = true
						}
					}
				}
				if !uses {
					continue
				}
				for _, a := range args {
					if s, ok := ConstString(a); ok {
						out = append(out, s)
					}
				}
			}
		}
	}
	g.dependsOn(buf, nil, func(v ssa.Value) bool {
		if s, ok := ConstString(v); ok {
			out = append(out, s)
		}
		return false
	})
	sort.Strings(out)
	return out
}

// ---------------------------------------------------------------------------
// X-index — the local index never knows more than the meta store durably records
//
// Every write of a row into the meta index (sorted.KeyValue.Set anywhere in the
// package: who-may-write) is an "index write event". An event is accepted in
// exactly two forms:
//
//	replayed  the row is computed only from the plaintext buffer of a decrypt-helper
//	          call whose ciphertext is (only) bytes the meta store returned for a
//	          fetch (the restart path);
//	durable   the event is dominated by the success edge of an upload into the meta
//	          store whose content is ciphertext of a plaintext that the row's refs
//	          flow into, and that upload is dominated by the success edge of the
//	          upload, into the blobs store, of the ciphertext the row's value names.
//
// An event that cannot be accepted where it stands (the write sits in a helper or
// a function literal) is lifted to every call site of that helper / literal
// (bounded), with the row translated through the parameters; a deferred literal
// is judged at every run-defers point it can reach, a go statement at the
// statement itself (what it starts happens after it).

// c11Back is a backward slice of a set of values along SSA operands: through
// loads to the stores of the variable (also stores into elements/fields of a
// local array or struct), through calls to all their arguments (receiver
// included) and through captured variables to their binding. With stopAtRefs the
// walk stops at the first blob.Ref-typed value on each path (refs). Values with
// nothing behind them are leaves (parameters, argument-less calls, globals).
type c11Back struct {
	refNamed *types.Named
	stopRefs bool
	stop     func(ssa.Value) bool // extra stop set: matched values are recorded as leaves
	seen     map[ssa.Value]bool
	refs     []ssa.Value
	leaves   []ssa.Value
}

func (w *c11Back) addRef(v ssa.Value) {
	v = originValue(v)
	for _, r := range w.refs {
		if r == v {
			return
		}
	}
	w.refs = append(w.refs, v)
}

func (w *c11Back) addLeaf(v ssa.Value) {
	for _, r := range w.leaves {
		if r == v {
			return
		}
	}
	w.leaves = append(w.leaves, v)
}

func (w *c11Back) isRef(t types.Type) bool {
	n, ok := t.(*types.Named)
	return ok && n == w.refNamed
}

func (w *c11Back) walk(v ssa.Value, depth int) {
	if v == nil || w.seen[v] {
		return
	}
	w.seen[v] = true
	if depth > 80 {
		w.addLeaf(v)
		return
	}
	switch v.(type) {
	case *ssa.Const, *ssa.Function, *ssa.Builtin:
		return
	}
	if w.stop != nil && w.stop(v) {
		w.addLeaf(v)
		return
	}
	if w.stopRefs && w.isRef(v.Type()) {
		// a load of a variable: look at what was stored (the stored values are refs too)
		if o := originValue(v); o != v {
			w.walk(o, depth+1)
			return
		}
		if ld, ok := v.(*ssa.UnOp); ok && ld.Op == token.MUL {
			if cell, ok := varOf(ld.X); ok {
				if sts := storesTo(cell); len(sts) > 0 {
					for _, st := range sts {
						w.walk(st.Val, depth+1)
					}
					return
				}
			}
		}
		if ph, ok := v.(*ssa.Phi); ok {
			for _, e := range ph.Edges {
				w.walk(e, depth+1)
			}
			return
		}
		w.addRef(v)
		return
	}
	switch x := v.(type) {
	case *ssa.Parameter, *ssa.Global:
		w.addLeaf(v)
	case *ssa.FreeVar:
		if b := bindingOf(x); b != nil {
			w.walk(b, depth+1)
		} else {
			w.addLeaf(v)
		}
	case *ssa.Alloc:
		n := 0
		for _, in := range c11WritesInto(x) {
			switch y := in.(type) {
			case *ssa.Store:
				n++
				w.walk(y.Val, depth+1)
			case ssa.CallInstruction:
				n++
				for _, a := range (CallSite{x.Parent(), y}).Args() {
					w.walk(a, depth+1)
				}
			}
		}
		_ = n // an alloc nobody writes holds the zero value: nothing behind it
	case *ssa.UnOp:
		if x.Op == token.MUL {
			if cell, ok := varOf(x.X); ok {
				if al, isAlloc := cell.(*ssa.Alloc); isAlloc {
					w.walk(al, depth+1)
					return
				}
			}
		}
		w.walk(x.X, depth+1)
	case *ssa.Call:
		n := 0
		for _, a := range (CallSite{x.Parent(), x}).Args() {
			switch a.(type) {
			case *ssa.Const, *ssa.Function, *ssa.Builtin:
				continue
			}
			n++
			w.walk(a, depth+1)
		}
		if !x.Call.IsInvoke() {
			if _, static := x.Call.Value.(*ssa.Function); !static {
				if _, bi := x.Call.Value.(*ssa.Builtin); !bi {
					n++
					w.walk(x.Call.Value, depth+1)
				}
			}
		}
		if n == 0 {
			w.addLeaf(v)
		}
	default:
		in, ok := v.(ssa.Instruction)
		if !ok {
			w.addLeaf(v)
			return
		}
		n := 0
		for _, op := range in.Operands(nil) {
			if *op != nil {
				n++
				w.walk(*op, depth+1)
			}
		}
		if n == 0 {
			w.addLeaf(v)
		}
	}
}

// c11WritesInto lists the instructions that write into the local variable al:
// stores to it or to an element/field address derived from it, and calls that
// are handed it (or such an address, or a slice of it).
func c11WritesInto(al *ssa.Alloc) []ssa.Instruction {
	var out []ssa.Instruction
	seen := map[ssa.Value]bool{}
	var visit func(addr ssa.Value, depth int)
	visit = func(addr ssa.Value, depth int) {
		if seen[addr] || depth > 8 {
			return
		}
		seen[addr] = true
		refs := addr.Referrers()
		if refs == nil {
			return
		}
		for _, r := range *refs {
			switch x := r.(type) {
			case *ssa.Store:
				if x.Addr == addr {
					out = append(out, x)
				}
			case *ssa.IndexAddr:
				if x.X == addr {
					visit(x, depth+1)
				}
			case *ssa.FieldAddr:
				if x.X == addr {
					visit(x, depth+1)
				}
			case *ssa.MakeClosure:
				if fn, ok := x.Fn.(*ssa.Function); ok {
					for i, b := range x.Bindings {
						if b == addr && i < len(fn.FreeVars) {
							visit(fn.FreeVars[i], depth+1)
						}
					}
				}
			case ssa.CallInstruction:
				if _, isPtrToBasic := al.Type().(*types.Pointer).Elem().Underlying().(*types.Array); !isPtrToBasic {
					out = append(out, x)
				}
			}
		}
	}
	visit(al, 0)
	return out
}

// c11Upload is an upload of content into one wrapped store, as seen from a
// function: a sink in its effective body (the function itself or a package
// helper it calls, transitively). content and ref are mapped through the chain
// into the function's own values where they are parameters of the helper.
type c11Upload struct {
	e       c11ECall
	content ssa.Value // mapped into the function's own values where it is a parameter of the helper
	ref     ssa.Value // the sink's own argument, to be seen through e.chain
	what    string
}

func (g *c11Flow) uploadEvents(p *Program, fn *ssa.Function, store string) []c11Upload {
	ro, _ := g.roles()
	var out []c11Upload
	for _, e := range g.effCalls(fn, ro.stop(), false) {
		if e.Value() == nil || !e.chain.sync() || !g.isSink(e.CallSite) {
			continue
		}
		ca := g.contentArg(e.CallSite)
		if ca == nil || g.storeOf(e) != store {
			continue
		}
		up := c11Upload{e: e, what: c11CalleeName(e.CallSite)}
		if n := len(e.chain); n > 0 {
			up.what = shortFn(e.chain[0].to) + " (" + c11CalleeName(e.CallSite) + ")"
		}
		up.content = ca
		for root := range c11BufferRoots(ca) {
			if _, ok := root.(*ssa.Parameter); ok {
				up.content, _ = g.canon(root, e.chain, false)
			}
		}
		up.ref = g.refArg(p, e.CallSite) // seen through e.chain
		out = append(out, up)
	}
	return out
}

// c11IndexEvent is one index write as seen from function fn.
type c11IndexEvent struct {
	fn       *ssa.Function
	at       []ssa.Instruction // every one of these points must be covered
	deferred bool
	key, val []ssa.Value
	via      string
}

type c11IndexCtx struct {
	p         *Program
	r         *Reporter
	g         *c11Flow
	ro        c11Roles
	metaStore string
	blobStore string
	refNamed  *types.Named
	readers   []ssa.Value // readers returned by fetches from the meta store
}

func (cx *c11IndexCtx) back(vals []ssa.Value, stopRefs bool, stop func(ssa.Value) bool) *c11Back {
	w := &c11Back{refNamed: cx.refNamed, stopRefs: stopRefs, stop: stop, seen: map[ssa.Value]bool{}}
	for _, v := range vals {
		w.walk(v, 0)
	}
	return w
}

func (cx *c11IndexCtx) inPkgCallers(fn *ssa.Function) (sites []CallSite, closed bool) {
	return cx.g.closedCallers(fn)
}

// pointsOf: the program points at which the effect of call site c takes place.
func c11PointsOf(c CallSite) (pts []ssa.Instruction, deferred bool) {
	if !c.IsDefer() {
		return []ssa.Instruction{c.Instr}, false
	}
	for in := range ReachableFrom(c.Instr, nil) {
		if _, ok := in.(*ssa.RunDefers); ok {
			pts = append(pts, in)
		}
	}
	sort.Slice(pts, func(i, j int) bool { return pts[i].Block().Index < pts[j].Block().Index })
	return pts, true
}

// replayed: the row is computed only from the plaintext of a decrypt-helper call in
// ev.fn. Returns that call.
func (cx *c11IndexCtx) replayed(ev c11IndexEvent) *c11ECall {
	body := cx.g.effCalls(ev.fn, cx.ro.stop(), false)
	for i := range body {
		c := body[i]
		if c.Callee() != cx.ro.decFn || c.Value() == nil || !c.chain.sync() {
			continue
		}
		plain := c.Value().Call.Args[cx.ro.decPlainIdx]
		isPlain := func(v ssa.Value) bool { return cx.g.same(v, nil, plain, c.chain) }
		w := cx.back(append(append([]ssa.Value{}, ev.key...), ev.val...), false, isPlain)
		if len(w.leaves) == 0 {
			continue
		}
		only := true
		for _, l := range w.leaves {
			if !isPlain(l) {
				only = false
			}
		}
		if only {
			return &body[i]
		}
	}
	return nil
}

// fedFromMeta: v (in some function of the package) carries bytes read from a
// reader the meta store returned.
func (cx *c11IndexCtx) fedFromMeta(v ssa.Value) bool {
	for _, rd := range cx.readers {
		if cx.g.flows(rd, v, c11FwdKinds) {
			return true
		}
	}
	return false
}

// durable tries to accept ev as "durably recorded first". On failure it returns
// the most specific reason.
func (cx *c11IndexCtx) durable(ev c11IndexEvent) (ok bool, detail, why string) {
	g := cx.g
	ups := g.uploadEvents(cx.p, ev.fn, cx.metaStore)
	if len(ups) == 0 {
		return false, "", "no upload into the meta store (" + cx.metaStore + ") in " + shortFn(ev.fn)
	}
	why = "no upload into the meta store dominates the index write"
	rank := 0
	fail := func(n int, s string) {
		if n > rank {
			rank, why = n, s
		}
	}
	keyRefs := cx.back(ev.key, true, nil).refs
	valRefs := cx.back(ev.val, true, nil).refs
	for _, up := range ups {
		dominated := true
		reason := ""
		for _, at := range ev.at {
			if ok, w := g.holds(c11CallEvent(up.e, c11Done), c11At{in: at}, 0); !ok {
				dominated, reason = false, w
			}
		}
		if !dominated {
			if ev.deferred {
				reason += "; the write is deferred and also runs on exits taken before or on the failure of the upload"
			}
			fail(1, "the index write is not on the success edge of the upload into the meta store by "+up.what+" ("+reason+")")
			continue
		}
		// the uploaded content is ciphertext of a plaintext the row's refs flow into
		var encs []*ssa.Call
		for _, f := range g.fns {
			for _, c := range CallsIn(f, false) {
				if c.Callee() == cx.ro.encFn && c.Value() != nil && g.flows(c.Value().Call.Args[cx.ro.encCipherIdx], up.content, c11FwdKinds) {
					encs = append(encs, c.Value())
				}
			}
		}
		if len(encs) == 0 {
			fail(2, "the content uploaded into the meta store by "+up.what+" is not the output of the encrypt helper")
			continue
		}
		if len(keyRefs) == 0 || len(valRefs) == 0 {
			fail(2, "cannot identify the plaintext ref / encrypted ref the index row is computed from")
			continue
		}
		var covered func(r ssa.Value, depth int) bool
		covered = func(r ssa.Value, depth int) bool {
			for _, e := range encs {
				if g.flows(r, e.Call.Args[cx.ro.encPlainIdx], c11AllKinds) {
					return true
				}
			}
			// a ref that is itself taken from something computed from other refs (the ref a store call returned)
			in, isInstr := r.(ssa.Instruction)
			if !isInstr || depth > 3 {
				return false
			}
			var ops []ssa.Value
			for _, op := range in.Operands(nil) {
				if *op != nil {
					ops = append(ops, *op)
				}
			}
			behind := cx.back(ops, true, nil).refs
			if len(behind) == 0 {
				return false
			}
			for _, b := range behind {
				if b == r || !covered(b, depth+1) {
					return false
				}
			}
			return true
		}
		missing := ""
		for _, r := range append(append([]ssa.Value{}, keyRefs...), valRefs...) {
			if !covered(r, 0) {
				missing = g.nodeName(g.node(r))
			}
		}
		if missing != "" {
			fail(3, "the meta blob uploaded by "+up.what+" is not computed from the ref the index row is made of ("+missing+"): the durable row and the index row differ")
			continue
		}
		// the ciphertext the row names was stored before the meta blob that names it
		okBlob, whyBlob := cx.ciphertextFirst(ev.fn, up.e.at(), valRefs, 0)
		if !okBlob {
			fail(4, "ciphertext-first: "+whyBlob)
			continue
		}
		return true, "on the success edge of the upload into " + cx.metaStore + " by " + up.what + ", whose content is ciphertext of a plaintext the row's refs flow into; " + whyBlob, ""
	}
	return false, "", why
}

// ciphertextFirst: point `at` in fn is on the success edge of an upload into the
// blobs store stored under (one of) encRefs.
func (cx *c11IndexCtx) ciphertextFirst(fn *ssa.Function, at c11At, encRefs []ssa.Value, depth int) (bool, string) {
	g := cx.g
	matches := func(up c11Upload, r ssa.Value) bool {
		if up.ref != nil && g.same(up.ref, up.e.chain, r, nil) {
			return true
		}
		// the ref the store call itself reported (encSB.Ref)
		return g.dependsOn(r, nil, func(v ssa.Value) bool { return v == ssa.Value(up.e.Value()) })
	}
	why := "no upload into the blobs store (" + cx.blobStore + ") under the encrypted ref of the row in " + shortFn(fn)
	for _, up := range g.uploadEvents(cx.p, fn, cx.blobStore) {
		for _, r := range encRefs {
			if !matches(up, r) {
				continue
			}
			if ok, w := g.holds(c11CallEvent(up.e, c11Done), at, 0); ok {
				return true, "that upload is on the success edge of the upload of the named ciphertext into " + cx.blobStore + " by " + up.what
			} else {
				why = "the meta blob is uploaded although the upload of the ciphertext it names into " + cx.blobStore + " has not succeeded (" + w + ")"
			}
		}
	}
	// the encrypted ref is a parameter: the ciphertext is stored by the callers
	if depth < 2 {
		for _, r := range encRefs {
			prm, ok := originValue(r).(*ssa.Parameter)
			if !ok || prm.Parent() != fn {
				continue
			}
			idx := -1
			for i, q := range fn.Params {
				if q == prm {
					idx = i
				}
			}
			sites, closed := cx.inPkgCallers(fn)
			if !closed || len(sites) == 0 || idx < 0 {
				continue
			}
			all := true
			detail := ""
			for _, cs := range sites {
				if cs.IsDefer() || cs.IsGo() {
					all = false
					continue
				}
				refs := cx.back([]ssa.Value{cs.Args()[idx]}, true, nil).refs
				ok, w := cx.ciphertextFirst(cs.Fn, c11At{in: cs.Instr}, refs, depth+1)
				if !ok {
					all, why = false, w
				}
				detail = w
			}
			if all {
				return true, detail + " (at the callers of " + shortFn(fn) + ")"
			}
		}
	}
	return false, why
}

// judge accepts or lifts one event. It returns ok, the accepted form and the
// reason of the failure.
func (cx *c11IndexCtx) judge(ev c11IndexEvent, depth int) (ok bool, form, why string) {
	if len(ev.at) == 0 {
		return false, "", "the deferred index write reaches no run-defers point"
	}
	if !ev.deferred {
		if dec := cx.replayed(ev); dec != nil {
			return cx.replaySource(ev, dec, depth)
		}
	}
	okD, detail, whyD := cx.durable(ev)
	if okD {
		return true, "durable-first" + ev.via + ": " + detail, ""
	}
	// lift
	sites, closed := cx.inPkgCallers(ev.fn)
	if depth >= 3 || !closed || len(sites) == 0 {
		if !closed {
			whyD += "; " + shortFn(ev.fn) + " can be entered from outside the package or as a callback, so its callers cannot vouch for it"
		}
		return false, "", whyD
	}
	forms := map[string]bool{}
	for _, cs := range sites {
		pts, deferred := c11PointsOf(cs)
		lifted := c11IndexEvent{fn: cs.Fn, at: pts, deferred: deferred || ev.deferred,
			key: cx.translate(ev.fn, cs, ev.key), val: cx.translate(ev.fn, cs, ev.val),
			via: ev.via + " via " + shortFn(ev.fn)}
		ok, f, w := cx.judge(lifted, depth+1)
		if !ok {
			return false, "", w
		}
		forms[f] = true
	}
	var fs []string
	for f := range forms {
		fs = append(fs, f)
	}
	sort.Strings(fs)
	return true, strings.Join(fs, " | "), ""
}

// translate rewrites the parameters of callee in the backward slice of vals to
// the arguments of call site cs; values that are not computed from parameters
// (captured variables of a literal) stay as they are.
func (cx *c11IndexCtx) translate(callee *ssa.Function, cs CallSite, vals []ssa.Value) []ssa.Value {
	w := cx.back(vals, true, func(v ssa.Value) bool {
		prm, ok := v.(*ssa.Parameter)
		return ok && prm.Parent() == callee
	})
	var out []ssa.Value
	add := func(v ssa.Value) {
		if prm, ok := v.(*ssa.Parameter); ok && prm.Parent() == callee {
			for i, q := range callee.Params {
				if q == prm && i < len(cs.Args()) {
					out = append(out, cs.Args()[i])
				}
			}
			return
		}
		out = append(out, v)
	}
	for _, v := range w.refs {
		add(v)
	}
	for _, v := range w.leaves {
		add(v)
	}
	return out
}

// replaySource: the ciphertext handed to the decrypt call dec consists only of
// bytes fetched from the meta store: directly, or through parameters of ev.fn that
// every caller feeds from such a fetch (a caller that does not is itself judged as
// an index write event at its call site).
func (cx *c11IndexCtx) replaySource(ev c11IndexEvent, dec *c11ECall, depth int) (bool, string, string) {
	isReader := func(v ssa.Value) bool {
		for _, rd := range cx.readers {
			if sameOrigin(v, rd) {
				return true
			}
		}
		return false
	}
	form := "replayed-from-meta" + ev.via + ": the row is computed only from the plaintext of " + shortFn(cx.ro.decFn) + " in " + shortFn(ev.fn) + dec.chain.via()
	// the ciphertext, followed from the helper that decrypts (if any) up to ev.fn
	type item struct {
		v     ssa.Value
		chain c11Chain
	}
	work := []item{{dec.Value().Call.Args[cx.ro.decCipherIdx], dec.chain}}
	var prms []*ssa.Parameter
	nLeaves := 0
	for len(work) > 0 {
		it := work[len(work)-1]
		work = work[:len(work)-1]
		w := cx.back([]ssa.Value{it.v}, false, func(v ssa.Value) bool {
			if _, isPrm := v.(*ssa.Parameter); isPrm {
				return true
			}
			return isReader(v)
		})
		for _, l := range w.leaves {
			nLeaves++
			if isReader(l) {
				continue
			}
			prm, ok := l.(*ssa.Parameter)
			if n := len(it.chain); ok && n > 0 && it.chain[n-1].to == prm.Parent() && !it.chain[n-1].cb {
				if idx := c11ParamIndex(prm); idx >= 0 && idx < len(it.chain[n-1].Args()) && nLeaves < 200 {
					work = append(work, item{it.chain[n-1].Args()[idx], it.chain[:n-1]})
					continue
				}
			}
			if !ok || prm.Parent() != ev.fn {
				return false, "", "the ciphertext decrypted in " + shortFn(ev.fn) + dec.chain.via() + " is computed from " + cx.g.nodeName(l) + ", which is neither a fetch from the meta store nor a parameter"
			}
			prms = append(prms, prm)
		}
	}
	if nLeaves == 0 {
		return false, "", "cannot find where the ciphertext decrypted in " + shortFn(ev.fn) + " comes from"
	}
	if len(prms) == 0 {
		return true, form + ", whose ciphertext is read from a fetch from " + cx.metaStore, ""
	}
	sites, closed := cx.inPkgCallers(ev.fn)
	if !closed || len(sites) == 0 {
		return false, "", shortFn(ev.fn) + " decrypts its parameter and writes the index, but can be entered from outside the package (or has no caller): nothing shows the bytes come from the meta store"
	}
	var fed []string
	for _, cs := range sites {
		okAll := true
		for _, prm := range prms {
			for i, q := range ev.fn.Params {
				if q == prm && !cx.fedFromMeta(cs.Args()[i]) {
					okAll = false
				}
			}
		}
		ck := FuncKey(ev.fn) + "#index-writer-fed-from-meta#caller:" + shortFn(cs.Fn)
		if okAll {
			cx.r.OK("X-index", ck, cx.p.Pos(cs.Pos()), "the bytes this caller hands to "+shortFn(ev.fn)+" flow from a reader the meta store ("+cx.metaStore+") returned for a fetch")
			fed = append(fed, shortFn(cs.Fn))
			continue
		}
		// not a replay: the call is an index write event of the caller
		if depth < 3 {
			pts, deferred := c11PointsOf(cs)
			var row []ssa.Value
			for _, prm := range prms {
				for i, q := range ev.fn.Params {
					if q == prm {
						row = append(row, cs.Args()[i])
					}
				}
			}
			lifted := c11IndexEvent{fn: cs.Fn, at: pts, deferred: deferred, key: row, val: row, via: " via " + shortFn(ev.fn)}
			if okD, detail, _ := cx.durable(lifted); okD {
				cx.r.OK("X-index", ck, cx.p.Pos(cs.Pos()), "the bytes this caller replays were durably recorded first: "+detail)
				continue
			}
		}
		cx.r.Violation("X-index", ck, cx.p.Pos(cs.Pos()), shortFn(cs.Fn)+" feeds "+shortFn(ev.fn)+" (which writes index rows from what it decrypts) with bytes that were neither fetched from the meta store nor successfully uploaded to it before: the index learns rows the meta store does not hold; after the index is lost they cannot be recovered")
	}
	return true, form + ", whose ciphertext parameter every caller (" + strings.Join(fed, ", ") + ") feeds from a fetch from " + cx.metaStore, ""
}

func c11RuleIndex(p *Program, r *Reporter, g *c11Flow) {
	const rule = "X-index"
	defer r.Floor(rule, 4)
	ro, ok := g.roles()
	if !ok {
		r.Undecided(rule, c11Rel+"#crypto-helper-roles", "?", "cannot identify the encrypt/decrypt helpers and their buffer parameters by role")
		return
	}
	cx := &c11IndexCtx{p: p, r: r, g: g, ro: ro, refNamed: p.NamedType("pkg/blob", "Ref")}

	// roles of the two wrapped stores: the meta store is the one the start-up scan
	// enumerates with a callback, the blobs store the one Fetch reads
	for _, fn := range g.fns {
		for _, s := range g.sinksIn(fn, false) {
			if len(g.funcArgs(s.c)) > 0 && !strings.Contains(s.store, "|") {
				if cx.metaStore != "" && cx.metaStore != s.store {
					r.Undecided(rule, c11Rel+"#store-roles", p.Pos(s.c.Pos()), "two different wrapped stores are enumerated with a callback: cannot tell the meta store")
					return
				}
				cx.metaStore = s.store
			}
		}
	}
	fetchIface := p.Iface("pkg/blob", "Fetcher")
	if fetchFn, _ := p.MethodOf(g.storeType, fetchIface.Method(0).Name()); fetchFn != nil {
		for _, e := range g.effCalls(fetchFn, ro.stop(), false) {
			if v := e.Value(); v != nil && e.chain.sync() && g.isSink(e.CallSite) {
				if out := ResultValue(v, 0); out != nil && c11Implements(out.Type(), g.readerIface) {
					if s := g.storeOf(e); !strings.Contains(s, "|") {
						cx.blobStore = s
					}
				}
			}
		}
	}
	if cx.metaStore == "" || cx.blobStore == "" || cx.metaStore == cx.blobStore {
		r.Undecided(rule, c11Rel+"#store-roles", "?", fmt.Sprintf("cannot tell the meta store (enumerated at start-up: %q) from the blobs store (read by Fetch: %q)", cx.metaStore, cx.blobStore))
		return
	}
	for _, fn := range g.fns {
		for _, s := range g.sinksIn(fn, false) {
			if s.store != cx.metaStore || s.c.Value() == nil {
				continue
			}
			if out := ResultValue(s.c.Value(), 0); out != nil && c11Implements(out.Type(), g.readerIface) {
				cx.readers = append(cx.readers, out)
			}
		}
	}

	// (a) the index handle is confined: only method calls on it
	var idxLoc *c11Loc
	st := g.storeType.Underlying().(*types.Struct)
	for i := 0; i < st.NumFields(); i++ {
		if c11Implements(st.Field(i).Type(), g.kvIface) {
			if idxLoc != nil {
				r.Undecided(rule, c11Rel+"#index-field", "?", "the storage type has more than one sorted.KeyValue field")
				return
			}
			idxLoc = &c11Loc{g.storeType, i}
		}
	}
	if idxLoc == nil {
		brokenf("anchor unresolved: %s has no sorted.KeyValue field (the meta index)", g.storeType.Obj().Name())
	}
	idxReach := g.reach([]c11Source{{*idxLoc, "index field"}}, map[c11EdgeKind]bool{c11Copy: true})
	escapes := 0
	for _, c := range g.extCalls {
		isKV := false
		if rt := c.RecvType(); rt != nil && c11Implements(rt, g.kvIface) {
			isKV = true
		}
		for i, a := range c.Args() {
			if i == 0 && isKV {
				continue // the receiver of a sorted.KeyValue method: an index operation, enumerated below
			}
			if _, isIdx := idxReach[g.node(a)]; isIdx && g.node(a) != nil {
				escapes++
				r.Undecided(rule, FuncKey(c.Fn)+"#index-escapes#"+c11CalleeName(c), p.Pos(c.Pos()), "the meta index is handed to "+c.CalleeKey()+": rows it writes there are not seen by the who-may-write enumeration")
			}
		}
	}
	if escapes == 0 {
		r.OKTable(rule, c11Rel+"#index-handle-confined", "?", "the meta index (field "+st.Field(idxLoc.F).Name()+") is only ever the receiver of sorted.KeyValue method calls inside the package")
	}

	// (b) who may write: every Set
	perFn := map[*ssa.Function]int{}
	for _, c := range g.indexSets {
		args := c.Args()
		if len(args) < 3 {
			continue
		}
		perFn[c.Fn]++
		construct := FuncKey(c.Fn) + "#index.Set"
		if perFn[c.Fn] > 1 {
			construct += fmt.Sprintf("[%d]", perFn[c.Fn])
		}
		construct += "#backed-by-meta"
		pts := []ssa.Instruction{c.Instr}
		deferred := false
		if c.IsDefer() {
			pts, deferred = c11PointsOf(c)
		}
		ev := c11IndexEvent{fn: c.Fn, at: pts, deferred: deferred, key: []ssa.Value{args[1]}, val: []ssa.Value{args[2]}}
		ok, form, why := cx.judge(ev, 0)
		if ok {
			r.OK(rule, construct, p.Pos(c.Pos()), form)
			continue
		}
		r.Violation(rule, construct, p.Pos(c.Pos()), "this write puts a row into the local meta index that the meta store is not known to hold: "+why+". If the meta blob is missing (failed or never attempted upload, crash in between) the blob is acknowledged as a duplicate on retry, stat'ed and enumerated, yet after the index is lost the start-up scan of the meta store cannot recover it")
	}
	if len(g.indexSets) == 0 {
		r.Violation(rule, c11Rel+"#index.Set", "?", "no function of the package writes the meta index any more")
	}
}

// c11CompactCoverage: what compaction deletes is what it packed. Seen from the
// compaction function the removed refs are one parameter (D) and the plaintext of
// the packed blob is fed from another parameter (P) of ref-slice type; at every
// call site the two arguments are lock-step accumulators: built by appending, in
// the same block, field f1 (a ref slice) and field f2 (a ref) of the SAME record to
// the two lists, reset together, merged by phis edge by edge (also when the pair of
// appends sits in a helper that takes and returns both lists). Then D lists exactly
// the records whose lines are in P.
func c11CompactCoverage(p *Program, r *Reporter, g *c11Flow, ro c11Roles, rt c11Root, rm c11Sink, enc *c11ECall) {
	const rule = "X-compact"
	fn := rt.fn
	fk := FuncKey(fn)
	site := p.Pos(rm.c.Pos())
	refNamed := p.NamedType("pkg/blob", "Ref")
	isRefSlice := func(t types.Type) bool {
		sl, ok := t.Underlying().(*types.Slice)
		return ok && NamedOf(sl.Elem()) == refNamed
	}
	var removed ssa.Value
	for _, a := range rm.c.Args() {
		if g.wrappedStore(g.node(a)) == "" && isRefSlice(a.Type()) {
			removed = a
		}
	}
	construct := fk + "#" + rm.store + ".RemoveBlobs#deletes-only-what-it-packs"
	if removed == nil || enc == nil {
		r.Undecided(rule, construct, site, "cannot identify the list of removed refs / the encryption of the packed blob")
		return
	}
	ro2 := ro
	canon, _ := g.canon(removed, rt.chain, false)
	dPrm, _ := canon.(*ssa.Parameter)
	if dPrm == nil || dPrm.Parent() != fn {
		r.Undecided(rule, construct, site, "the list of removed refs is not a parameter of "+shortFn(fn)+": cannot relate it to what the callers packed")
		return
	}
	plainBuf := enc.Value().Call.Args[ro2.encPlainIdx]
	di, pi := -1, -1
	nP := 0
	for i, prm := range fn.Params {
		if prm == dPrm {
			di = i
			continue
		}
		if isRefSlice(prm.Type()) && g.cflows(prm, nil, plainBuf, enc.chain, c11AllKinds) {
			pi = i
			nP++
		}
	}
	if nP != 1 || di < 0 {
		r.Violation(rule, construct, site, fmt.Sprintf("%d ref-list parameters of %s (other than the removed list) flow into the plaintext of the packed meta blob, want exactly 1: the packed blob is not built from the rows handed in with the list of blobs to delete", nP, shortFn(fn)))
		return
	}
	if g.cflows(dPrm, nil, plainBuf, enc.chain, c11FwdKinds) {
		r.Undecided(rule, construct, site, "the removed refs also flow into the packed plaintext: cannot tell the two lists apart")
		return
	}
	// call sites
	var sites []CallSite
	for _, f := range g.fns {
		for _, c := range CallsIn(f, false) {
			if c.Callee() == fn && len(c.Args()) == len(fn.Params) {
				sites = append(sites, c)
			}
		}
	}
	if len(sites) == 0 || len(p.FuncValueUses(fn)) > 0 || token.IsExported(fn.Name()) {
		r.Undecided(rule, construct, site, shortFn(fn)+" has no call site in the package or can be called from elsewhere: the pairing of its two lists cannot be checked")
		return
	}
	r.OK(rule, construct, site, fmt.Sprintf("removes exactly parameter %s; the packed plaintext is fed from parameter %s; their pairing is checked at the %d call sites", dPrm.Name(), fn.Params[pi].Name(), len(sites)))
	n := map[*ssa.Function]int{}
	for _, cs := range sites {
		n[cs.Fn]++
		ck := fmt.Sprintf("%s#call:%s[%d]#lists-in-lock-step", FuncKey(cs.Fn), shortFn(fn), n[cs.Fn])
		ok, why := g.lockStep(cs.Args()[pi], cs.Args()[di], nil, map[[2]ssa.Value]bool{}, 0)
		switch {
		case ok:
			r.OK(rule, ck, p.Pos(cs.Pos()), "the rows to pack and the meta blobs to delete are accumulated in lock-step from the same records (one append each per record in the same block, reset together)")
		case strings.HasPrefix(why, "?"):
			r.Undecided(rule, ck, p.Pos(cs.Pos()), "cannot follow how the rows to pack and the meta blobs to delete are built ("+why[1:]+")")
		default:
			r.Violation(rule, ck, p.Pos(cs.Pos()), "the list of meta blobs to delete is not built in lock-step with the rows to pack ("+why+"): a small meta blob whose rows are not in the packed blob is deleted after the upload, its rows exist nowhere in the meta store any more and are lost with the index")
		}
	}
}

// lockStep: see c11CompactCoverage. ctx is the chain of helper calls entered so
// far (a pair of parameters of the helper stands for the pair of arguments). A
// reason starting with "?" means the shape is not understood (undecided) rather
// than wrong.
func (g *c11Flow) lockStep(a, b ssa.Value, ctx c11Chain, assumed map[[2]ssa.Value]bool, depth int) (bool, string) {
	a, b = originValue(a), originValue(b)
	if IsNilConst(a) && IsNilConst(b) {
		return true, ""
	}
	if depth > 40 {
		return false, "?construction of the lists too deep"
	}
	key := [2]ssa.Value{a, b}
	if assumed[key] {
		return true, ""
	}
	pa, aPhi := a.(*ssa.Phi)
	pb, bPhi := b.(*ssa.Phi)
	if aPhi && bPhi {
		if pa.Block() != pb.Block() || len(pa.Edges) != len(pb.Edges) {
			return false, "the two lists are merged at different points"
		}
		assumed[key] = true
		for i := range pa.Edges {
			if ok, why := g.lockStep(pa.Edges[i], pb.Edges[i], ctx, assumed, depth+1); !ok {
				return false, why
			}
		}
		return true, ""
	}
	baseA, elA, okA := c11AppendOf(a)
	baseB, elB, okB := c11AppendOf(b)
	if okA && okB {
		if a.(*ssa.Call).Block() != b.(*ssa.Call).Block() {
			return false, "the two appends are not executed together (different blocks)"
		}
		xa, fa, ok1 := c11FieldSource(elA)
		xb, fb, ok2 := c11FieldSource(elB)
		if !ok1 || !ok2 {
			return false, "?an appended element is not a field of a record"
		}
		if !g.same(xa, ctx, xb, ctx) {
			return false, "the rows and the ref to delete are taken from different records"
		}
		if fa == fb {
			return false, "?both lists are fed from the same field"
		}
		return g.lockStep(baseA, baseB, ctx, assumed, depth+1)
	}
	// both are parameters of the helper entered last: the pair of arguments
	if qa, ok := a.(*ssa.Parameter); ok {
		if qb, ok := b.(*ssa.Parameter); ok && qa.Parent() == qb.Parent() {
			ia, ib := c11ParamIndex(qa), c11ParamIndex(qb)
			if len(ctx) > 0 {
				l := ctx[len(ctx)-1]
				if l.to == qa.Parent() && ia >= 0 && ib >= 0 && ia < len(l.Args()) && ib < len(l.Args()) {
					return g.lockStep(l.Args()[ia], l.Args()[ib], ctx[:len(ctx)-1], assumed, depth+1)
				}
			} else if ia >= 0 && ib >= 0 {
				// no helper was entered: the call site sits in a function that merely forwards two of
				// its own parameters (a wrapper around the go statement, the second half of a split
				// function): the pair is built by the callers of that function - all of them
				sites, closed := g.closedCallers(qa.Parent())
				if !closed || len(sites) == 0 {
					return false, "?the two lists are parameters of " + shortFn(qa.Parent()) + ", which has no call site in the package or can be called from elsewhere"
				}
				assumed[key] = true
				for _, cs := range sites {
					if ok, why := g.lockStep(cs.Args()[ia], cs.Args()[ib], nil, assumed, depth+1); !ok {
						return false, why
					}
				}
				return true, ""
			}
		}
	}
	// both are results of one call of a package helper: the pair it returns, at every return
	if ca, ia := c11CallOfResult(a); ca != nil {
		if cb, ib := c11CallOfResult(b); cb == ca && ia != ib {
			cs := CallSite{ca.Parent(), ca}
			if h := cs.Callee(); g.followable(h) && !ctx.has(h) && len(ctx) < c11MaxDepth && len(cs.Args()) == len(h.Params) {
				inner := ctx.with(c11Link{cs, h, false})
				rets := Returns(h)
				if len(rets) == 0 {
					return false, "?the helper building the lists never returns"
				}
				for _, ri := range rets {
					if ia >= len(ri.Results) || ib >= len(ri.Results) {
						return false, "?unrecognised construction of the lists"
					}
					if ok, why := g.lockStep(ri.Results[ia], ri.Results[ib], inner, assumed, depth+1); !ok {
						return false, why
					}
				}
				return true, ""
			}
		}
	}
	if IsNilConst(a) != IsNilConst(b) {
		return false, "one list is reset while the other keeps its entries"
	}
	if aPhi != bPhi || okA != okB {
		return false, "one list is extended or merged where the other is not"
	}
	return false, "?unrecognised construction of the lists"
}

func c11AppendOf(v ssa.Value) (base, elems ssa.Value, ok bool) {
	call, isCall := v.(*ssa.Call)
	if !isCall {
		return nil, nil, false
	}
	if bi, isBi := call.Call.Value.(*ssa.Builtin); !isBi || bi.Name() != "append" || len(call.Call.Args) != 2 {
		return nil, nil, false
	}
	return call.Call.Args[0], call.Call.Args[1], true
}

// c11FieldSource: v is the load of field f of record x, or a one-element
// variadic slice holding such a load.
func c11FieldSource(v ssa.Value) (x ssa.Value, f int, ok bool) {
	if sl, isSl := v.(*ssa.Slice); isSl {
		al, isAl := sl.X.(*ssa.Alloc)
		if !isAl {
			return nil, 0, false
		}
		var vals []ssa.Value
		for _, in := range c11WritesInto(al) {
			st, isSt := in.(*ssa.Store)
			if !isSt {
				return nil, 0, false
			}
			vals = append(vals, st.Val)
		}
		if len(vals) != 1 {
			return nil, 0, false
		}
		v = vals[0]
	}
	ld, isLd := v.(*ssa.UnOp)
	if !isLd || ld.Op != token.MUL {
		if fv, isF := v.(*ssa.Field); isF {
			return fv.X, fv.Field, true
		}
		return nil, 0, false
	}
	fa, isFA := ld.X.(*ssa.FieldAddr)
	if !isFA {
		return nil, 0, false
	}
	return fa.X, fa.Field, true
}
