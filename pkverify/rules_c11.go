package main

import (
	"fmt"
	"go/token"
	"go/types"
	"os"
	"sort"
	"strings"
	"time"

	"golang.org/x/tools/go/ssa"
)

// C11 — the encrypting store never hands plaintext (or names derived from it) to
// the wrapped stores, and what it returns was authenticated.
//
// X-taint is decided with a small package-local information-flow graph
// (c11Flow): nodes are SSA values, struct fields of the package's own struct
// types (field-based), and per-function result slots; edges say "data may flow
// from A to B". Labels are computed by reachability:
//
//	P  plaintext handed in through the storage API (every non-context parameter of the
//	   exported methods of the storage type: the blob reader, plaintext refs) and keys
//	   read back from the meta index (they are plaintext refs);
//	D  output of age.Decrypt;
//	E  an object age.Encrypt was asked to write ciphertext into;
//	W  the wrapped stores themselves (loads of the storage fields whose type is a blob
//	   store), propagated along value-identity edges only.
//
// A sink is any call that is not analysed inside the package and has a W-labelled
// receiver or argument; every other data argument of a sink is an obligation.

const c11Rel = "pkg/blobserver/encrypt"

func init() {
	register(&PropSpec{
		ID:    "C11",
		Title: "The encrypting store leaks no plaintext, detects tampering, and is recoverable",
		Explanation: "Decided (structural necessary conditions, package pkg/blobserver/encrypt): " +
			"X-taint — explicit information flow, package-wide and flow-insensitive: no value derived from the plaintext handed in through the storage API (the ReceiveBlob reader, plaintext blobrefs of ReceiveBlob/Fetch/StatBlobs/RemoveBlobs/EnumerateBlobs), from keys of the meta index (plaintext refs) or from the output of age.Decrypt reaches any argument of any call that is given one of the wrapped stores (a method call on storage.blobs/storage.meta or a helper such as blobserver.ReceiveNoHash/EnumerateAll taking one); the only declassifier is the writer returned by age.Encrypt; every reader/byte-slice handed to a wrapped store, and the blobref it is stored under, derive from a buffer age.Encrypt wrote into, and that blobref is computed (blob.RefFromBytes) from the very buffer that is uploaded; the value half of every meta-index row (size/encrypted-ref, later used as the name fetched from the wrapped store) does not derive from API plaintext; every age.Encrypt/age.Decrypt call is keyed from the one identity field of the storage struct. " +
			"X-fetch — every success return of Fetch is dominated by HashMatches()==true of the fetched blob's ref against a hash fed (before the comparison) from the reader the wrapped store returned, and by a successful decryptBlob of a buffer fed by that same copy; the returned reader is the decrypt output and the returned size is the indexed plaintext size for the requested ref; decryptBlob returns nil only after the version byte compared equal to the constant encryptBlob writes, age.Decrypt succeeded and the copy of its output succeeded; encryptBlob returns nil only after the copy into the age writer and its Close succeeded. " +
			"X-compact — in makePackedMetaBlob the removal of the small meta blobs is dominated by the success edge of the upload of the packed meta blob to the same store, which is dominated by a successful encryptBlob into the uploaded buffer, and is unreachable from the failure edge of an index look-up; what is removed is one parameter of the packer and the packed plaintext is fed from exactly one other ref-list parameter, and at every call site of the packer those two arguments are lock-step accumulators (per record one append of its row list and one append of its own ref, from the same record, in the same block; reset together; merged by phis edge by edge), so the deleted meta blobs are exactly the records whose rows were handed in for packing; the restart path exists: the constructor returns a store only after readAllMetaBlobs succeeded, which enumerates the meta store, fetches every enumerated ref from it, hands the bytes to processEncryptedMetaBlob and fails if that fails; processEncryptedMetaBlob succeeds only after a successful decryptBlob and writes an index row computed from the decrypted lines, failing if the index write fails; the header line written by both meta writers equals the one the parser accepts. " +
			"X-index — the recoverability invariant 'the local index never knows more than the meta store durably records' (which is also what makes the duplicate short-cut at the top of ReceiveBlob and stat/enumerate sound): who-may-write enumeration of every sorted.KeyValue.Set in the package (the index handle is shown never to leave the package other than as the receiver of KeyValue methods); each write must be either REPLAYED — the row is computed only (backward slice, all leaves) from the plaintext buffer of a decrypt-helper call whose ciphertext is only a parameter that every caller in the package feeds from a reader the meta store returned for a fetch (a caller that does not is judged as a writer itself) — or DURABLE-FIRST — the write is on the success edge of an upload into the meta store (the store the start-up scan enumerates; resolved per call site through forwarding helpers, which must report the upload's failure) whose content is the ciphertext of an encrypt-helper call into whose plaintext every blob.Ref the row is computed from flows, and that meta upload is on the success edge of the upload, into the blobs store (the store Fetch reads), of the ciphertext stored under the encrypted ref the row's value is computed from. A write inside a helper or function literal is judged at every call site (bounded depth 3, row translated through the parameters); a deferred write at every run-defers point it reaches, a write started with go at the go statement; a write in a callback or an API method that is not covered where it stands is a violation. " +
			"NOT decided: implicit flows (control dependence, timing, sizes: integer, float and boolean values other than bytes are treated as carrying no plaintext, and the size half of a row is not compared between index and meta blob), confidentiality/authenticity of age itself, what external helpers do with their arguments beyond 'results and mutable arguments depend on all arguments', which field of a decrypted meta line ends up as the encrypted ref (the index is trusted to return what was stored), that tampering is detected for any concrete byte flip, that every metaBlob record pairs a meta blob's ref with exactly the rows that blob holds (construction sites of the records are not checked, nor that the packer writes every element of its row list), index Delete/Wipe and batch writes (batch operations are reported undecided by X-taint's flow model), rows left in a persistent index by an earlier process (a crash of an older, differently ordered version; meta blobs removed behind the store's back), recoverability outcomes for any concrete history.",
		RuleDocs: map[string]string{
			"X-taint":   "information-flow graph over package encrypt: every data argument of every call that receives storage.blobs/storage.meta (sinks), every value written to the meta index, every age.Encrypt/Decrypt key: no flow from API plaintext / index keys / decrypt output; uploaded bytes and their refs derive from an age.Encrypt target buffer, the ref from the uploaded buffer",
			"X-fetch":   "dominance in (*storage).Fetch, decryptBlob, encryptBlob: success returns dominated by ciphertext hash comparison over the bytes read and by authenticated decryption; size and reader provenance",
			"X-compact": "dominance in makePackedMetaBlob (upload success before RemoveBlobs; index look-up failure never reaches the removal), removed list and packed rows are two parameters built in lock-step from the same records at every call site of the packer, restart path from the constructor through readAllMetaBlobs/processEncryptedMetaBlob to index.Set, header-constant agreement between the meta writers and the parser",
			"X-index":   "who-may-write over every sorted.KeyValue.Set in package encrypt: each index row is either replayed only from decrypted bytes that every caller fetched from the meta store, or written on the success edge of the meta-store upload of ciphertext computed from the row's refs, itself on the success edge of the blobs-store upload of the ciphertext the row names; helpers/literals judged at their call sites, deferred writes at every run-defers point; the index handle does not escape",
		},
		Run:       runC11,
		DesignRef: "DESIGN.md §4 C11",
		Technique: "static analysis: package-local explicit information-flow (taint) graph over go/ssa with field-based struct locations and parameter/result binding, plus dominance (success-edge) rules, a who-may-write enumeration with backward value slices and call-site lifting, lock-step accumulator matching over phis, and constant-agreement rules",
		LevelText: "Decides structural necessary conditions only: no explicit data flow from plaintext (API reader and refs, index keys, decrypt output) into any argument handed to the wrapped stores except through age.Encrypt; uploaded names are hashes of the uploaded ciphertext buffer; Fetch returns only after the ciphertext digest check and authenticated decryption succeeded; compaction uploads before it deletes and deletes only the records whose rows it was handed; the restart scan is wired from the constructor to the index; and every index row is written either from bytes fetched from the meta store or only after the meta blob recording it (and before that the ciphertext it names) was stored successfully, so the index never runs ahead of what a rebuild from the wrapped stores would give. Does not decide cryptographic strength, implicit flows, tamper-detection outcomes, the contents of a persistent index inherited from an earlier process, or recoverability for any concrete history.",
	})
}

func runC11(p *Program, r *Reporter) {
	t0 := time.Now()
	defer func() {
		r.Note("C11 rules (graph construction + all queries) took %d ms after loading", time.Since(t0).Milliseconds())
	}()
	g := c11BuildFlow(p)
	r.Analysed("functions", len(g.fns))
	r.Analysed("flow_nodes", len(g.succ))
	r.Analysed("flow_edges", g.nEdges)
	c11RuleTaint(p, r, g)
	c11RuleFetch(p, r, g)
	c11RuleCompact(p, r, g)
	c11RuleIndex(p, r, g)
}

// ---------------------------------------------------------------------------
// Flow graph

type c11Loc struct {
	T *types.Named
	F int
}

type c11Ret struct {
	Fn *ssa.Function
	I  int
}

type c11EdgeKind uint8

const (
	c11Copy    c11EdgeKind = iota // value identity, forward
	c11CopyRev                    // value identity, backward (pointer-like values: writes through the copy reach the original)
	c11Derive                     // computed from / stored into
	c11Mutate                     // an external callee may write one argument's data into another mutable argument, or its result may wrap an argument
)

type c11Edge struct {
	to   any
	kind c11EdgeKind
}

type c11Source struct {
	node any
	what string
}

type c11Sink struct {
	c     CallSite
	store string // field name of the wrapped store
}

type c11Flow struct {
	p     *Program
	pkg   *types.Package
	fns   []*ssa.Function
	inPkg map[*ssa.Function]bool

	succ   map[any][]c11Edge
	nEdges int

	storeType   *types.Named      // the storage struct type
	storeFields map[c11Loc]string // wrapped-store fields
	keyField    c11Loc            // identity field
	srcP        []c11Source       // API plaintext + index keys
	srcD        []c11Source       // decrypt output
	srcE        []c11Source       // encrypt targets
	encCalls    []CallSite        // age.Encrypt
	decCalls    []CallSite        // age.Decrypt
	indexSets   []CallSite        // sorted.KeyValue.Set
	extCalls    []CallSite        // calls not analysed in the package
	problems    []string          // constructs the graph cannot model (=> undecided)
	problemPos  []token.Pos
	reachP      map[any]any // node -> parent
	reachD      map[any]any
	reachE      map[any]any
	reachW      map[string]map[any]any // per store field
	kvIface     *types.Interface
	iterIface   *types.Interface
	readerIface *types.Interface
}

func c11Carrier(t types.Type) bool {
	if t == nil {
		return false
	}
	if c11IsContext(t) {
		return false
	}
	switch u := t.Underlying().(type) {
	case *types.Basic:
		if u.Info()&types.IsString != 0 || u.Kind() == types.UnsafePointer {
			return true
		}
		return u.Kind() == types.Uint8 // bytes carry content; other numbers, bools: sizes/counts/flags
	case *types.Signature:
		return false
	case *types.Tuple:
		return u.Len() > 0
	}
	return true
}

func c11IsContext(t types.Type) bool {
	if pt, ok := t.(*types.Pointer); ok {
		t = pt.Elem()
	}
	n, ok := t.(*types.Named)
	return ok && n.Obj().Pkg() != nil && n.Obj().Pkg().Path() == "context" && n.Obj().Name() == "Context"
}

// c11Objecty: values through which a callee or a later writer can modify data
// that other holders of the value observe.
func c11Objecty(t types.Type) bool {
	if t == nil || c11IsContext(t) || isErrorType(t) {
		return false
	}
	switch u := t.Underlying().(type) {
	case *types.Pointer, *types.Slice, *types.Map, *types.Chan:
		return true
	case *types.Interface:
		return true
	case *types.Tuple:
		for i := 0; i < u.Len(); i++ {
			if c11Objecty(u.At(i).Type()) {
				return true
			}
		}
	}
	return false
}

func (g *c11Flow) localStruct(t types.Type) *types.Named {
	n := NamedOf(t)
	if n == nil || n.Obj().Pkg() != g.pkg {
		return nil
	}
	if _, ok := n.Underlying().(*types.Struct); !ok {
		return nil
	}
	return n
}

// node canonicalises a value: address arithmetic and identity conversions
// collapse onto their base object, fields of the package's own structs become
// field-based locations, free variables become the captured cell.
func (g *c11Flow) node(v ssa.Value) any {
	if v == nil || !c11Carrier(v.Type()) {
		return nil
	}
	for i := 0; i < 64; i++ {
		switch x := v.(type) {
		case *ssa.Const, *ssa.Builtin, *ssa.Function:
			return nil
		case *ssa.FieldAddr:
			if n := g.localStruct(x.X.Type()); n != nil {
				return c11Loc{n, x.Field}
			}
			v = x.X
			continue
		case *ssa.Field:
			if n := g.localStruct(x.X.Type()); n != nil {
				return c11Loc{n, x.Field}
			}
			v = x.X
			continue
		case *ssa.IndexAddr:
			v = x.X
			continue
		case *ssa.Index:
			v = x.X
			continue
		case *ssa.Slice:
			v = x.X
			continue
		case *ssa.ChangeType:
			v = x.X
			continue
		case *ssa.MakeInterface:
			v = x.X
			continue
		case *ssa.ChangeInterface:
			v = x.X
			continue
		case *ssa.Convert:
			v = x.X
			continue
		case *ssa.MultiConvert:
			v = x.X
			continue
		case *ssa.SliceToArrayPointer:
			v = x.X
			continue
		case *ssa.TypeAssert:
			v = x.X
			continue
		case *ssa.Range:
			v = x.X
			continue
		case *ssa.Next:
			v = x.Iter
			continue
		case *ssa.Extract:
			if _, isCall := x.Tuple.(*ssa.Call); !isCall {
				v = x.Tuple
				continue
			}
		case *ssa.FreeVar:
			if b := bindingOf(x); b != nil {
				v = b
				continue
			}
		}
		break
	}
	if _, ok := v.(*ssa.Const); ok {
		return nil
	}
	return v
}

func (g *c11Flow) edge(from, to any, kind c11EdgeKind) {
	if from == nil || to == nil || from == to {
		return
	}
	for _, e := range g.succ[from] {
		if e.to == to && e.kind == kind {
			return
		}
	}
	g.succ[from] = append(g.succ[from], c11Edge{to, kind})
	if _, ok := g.succ[to]; !ok {
		g.succ[to] = nil
	}
	g.nEdges++
}

// flow adds from -> to; for pointer-like values also the reverse (aliasing:
// what is written through the copy is seen through the original).
func (g *c11Flow) flow(from, to any, copy bool, t types.Type) {
	if copy {
		g.edge(from, to, c11Copy)
		if c11Objecty(t) && g.nodeObjecty(from) {
			g.edge(to, from, c11CopyRev)
		}
		return
	}
	g.edge(from, to, c11Derive)
}

// nodeObjecty: the canonical node denotes a mutable object (an interface made
// from a struct value, e.g. any(blob.Ref), is a copy and is not).
func (g *c11Flow) nodeObjecty(n any) bool {
	switch x := n.(type) {
	case c11Loc:
		return c11Objecty(x.T.Underlying().(*types.Struct).Field(x.F).Type())
	case c11Ret:
		res := x.Fn.Signature.Results()
		return x.I < res.Len() && c11Objecty(res.At(x.I).Type())
	case ssa.Value:
		return c11Objecty(x.Type())
	}
	return false
}

// obj: v is a pointer-like value whose canonical node is a mutable object.
func (g *c11Flow) obj(v ssa.Value) bool {
	if v == nil || !c11Objecty(v.Type()) {
		return false
	}
	return g.nodeObjecty(g.node(v))
}

func (g *c11Flow) problem(pos token.Pos, format string, args ...any) {
	g.problems = append(g.problems, fmt.Sprintf(format, args...))
	g.problemPos = append(g.problemPos, pos)
}

func c11BuildFlow(p *Program) *c11Flow {
	g := &c11Flow{p: p, pkg: p.Pkg(c11Rel).Types, inPkg: map[*ssa.Function]bool{}, succ: map[any][]c11Edge{},
		storeFields: map[c11Loc]string{}, reachW: map[string]map[any]any{}}
	g.fns = p.FuncsIn(c11Rel)
	for _, f := range g.fns {
		g.inPkg[f] = true
	}
	g.kvIface = p.Iface("pkg/sorted", "KeyValue")
	g.iterIface = p.Iface("pkg/sorted", "Iterator")
	if io := p.ByPath["io"]; io != nil {
		if tn, ok := io.Types.Scope().Lookup("Reader").(*types.TypeName); ok {
			g.readerIface, _ = tn.Type().Underlying().(*types.Interface)
		}
	}
	if g.readerIface == nil {
		brokenf("anchor unresolved: io.Reader")
	}

	// Roles: the storage type = the package's implementer of blobserver.BlobReceiver
	// (and blob.Fetcher); its wrapped-store fields = fields whose type is itself a blob store.
	recvIface := p.Iface("pkg/blobserver", "BlobReceiver")
	fetchIface := p.Iface("pkg/blob", "Fetcher")
	for _, n := range p.Implementers(recvIface, true) {
		if n.Obj().Pkg() != g.pkg {
			continue
		}
		if !(types.Implements(types.NewPointer(n), fetchIface) || types.Implements(n, fetchIface)) {
			continue
		}
		if g.storeType != nil {
			brokenf("anchor ambiguous: two storage types in %s (%s, %s)", c11Rel, g.storeType.Obj().Name(), n.Obj().Name())
		}
		g.storeType = n
	}
	if g.storeType == nil {
		brokenf("anchor unresolved: no type in %s implements blobserver.BlobReceiver and blob.Fetcher", c11Rel)
	}
	st, _ := g.storeType.Underlying().(*types.Struct)
	if st == nil {
		brokenf("anchor unresolved: %s.%s is not a struct", c11Rel, g.storeType.Obj().Name())
	}
	nKey := 0
	for i := 0; i < st.NumFields(); i++ {
		ft := st.Field(i).Type()
		if types.Implements(ft, recvIface) || types.Implements(ft, fetchIface) {
			g.storeFields[c11Loc{g.storeType, i}] = st.Field(i).Name()
		}
		if IsNamed(ft, "filippo.io/age", "X25519Identity") {
			g.keyField = c11Loc{g.storeType, i}
			nKey++
		}
	}
	if len(g.storeFields) == 0 {
		brokenf("anchor unresolved: %s has no field holding a wrapped blob store", g.storeType.Obj().Name())
	}
	if nKey != 1 {
		brokenf("anchor unresolved: %s has %d age identity fields, want exactly 1", g.storeType.Obj().Name(), nKey)
	}

	// P sources: parameters of the exported methods of the storage type.
	for _, fn := range g.fns {
		if fn.Parent() != nil || fn.Signature.Recv() == nil || NamedOf(fn.Signature.Recv().Type()) != g.storeType {
			continue
		}
		if !token.IsExported(fn.Name()) {
			continue
		}
		for _, prm := range fn.Params[1:] {
			if n := g.node(prm); n != nil {
				g.srcP = append(g.srcP, c11Source{n, fmt.Sprintf("parameter %s of API method %s", prm.Name(), fn.Name())})
			}
		}
	}

	for _, fn := range g.fns {
		for _, b := range fn.Blocks {
			for _, in := range b.Instrs {
				g.instr(fn, in)
			}
		}
	}

	all := map[c11EdgeKind]bool{c11Copy: true, c11CopyRev: true, c11Derive: true, c11Mutate: true}
	g.reachP = g.reach(g.srcP, all)
	g.reachD = g.reach(g.srcD, all)
	// "is ciphertext" is positive evidence: only value derivation counts, not what an external callee might have copied around
	g.reachE = g.reach(g.srcE, map[c11EdgeKind]bool{c11Copy: true, c11CopyRev: true, c11Derive: true})
	for loc, name := range g.storeFields {
		g.reachW[name] = g.reach([]c11Source{{loc, "field " + name}}, map[c11EdgeKind]bool{c11Copy: true})
	}
	if os.Getenv("C11_DEBUG") != "" {
		g.debugDump()
	}
	return g
}

func (g *c11Flow) instr(fn *ssa.Function, in ssa.Instruction) {
	switch x := in.(type) {
	case *ssa.Store:
		g.flow(g.node(x.Val), g.node(x.Addr), true, x.Val.Type())
		// whole-struct store of a package struct: its fields are field-based locations
		if n := g.localStruct(x.Val.Type()); n != nil {
			if _, isPtr := x.Val.Type().(*types.Pointer); !isPtr {
				st := n.Underlying().(*types.Struct)
				for i := 0; i < st.NumFields(); i++ {
					g.edge(g.node(x.Val), c11Loc{n, i}, c11Derive)
				}
			}
		}
	case *ssa.UnOp:
		switch x.Op {
		case token.MUL:
			g.flow(g.node(x.X), g.node(x), true, x.Type())
			if n := g.localStruct(x.Type()); n != nil {
				if _, isPtr := x.Type().(*types.Pointer); !isPtr {
					st := n.Underlying().(*types.Struct)
					for i := 0; i < st.NumFields(); i++ {
						g.edge(c11Loc{n, i}, g.node(x), c11Derive)
					}
				}
			}
		case token.ARROW:
			g.edge(g.node(x.X), g.node(x), c11Derive)
		default:
			g.edge(g.node(x.X), g.node(x), c11Derive)
		}
	case *ssa.BinOp:
		g.edge(g.node(x.X), g.node(x), c11Derive)
		g.edge(g.node(x.Y), g.node(x), c11Derive)
	case *ssa.Phi:
		for _, e := range x.Edges {
			g.flow(g.node(e), g.node(x), true, x.Type())
		}
	case *ssa.Send:
		g.edge(g.node(x.X), g.node(x.Chan), c11Derive)
	case *ssa.MapUpdate:
		g.edge(g.node(x.Key), g.node(x.Map), c11Derive)
		g.edge(g.node(x.Value), g.node(x.Map), c11Derive)
	case *ssa.Lookup:
		g.edge(g.node(x.X), g.node(x), c11Derive)
	case *ssa.Select:
		for _, s := range x.States {
			if s.Dir == types.SendOnly {
				g.edge(g.node(s.Send), g.node(s.Chan), c11Derive)
			} else {
				g.edge(g.node(s.Chan), g.node(x), c11Derive)
			}
		}
	case *ssa.Extract:
		call, ok := x.Tuple.(*ssa.Call)
		if !ok {
			return // aliased onto the tuple by node()
		}
		cs := CallSite{fn, call}
		if callee := cs.Callee(); callee != nil && g.inPkg[callee] {
			g.flow(c11Ret{callee, x.Index}, g.node(x), true, x.Type())
			return
		}
		if g.modelled(cs) {
			return
		}
		g.edge(g.node(call), g.node(x), c11Derive)
		if c11Objecty(x.Type()) {
			g.edge(g.node(x), g.node(call), c11Mutate)
		}
	case *ssa.Return:
		for i, res := range x.Results {
			g.flow(g.node(res), c11Ret{fn, i}, true, res.Type())
		}
	case ssa.CallInstruction:
		g.call(CallSite{fn, x})
	}
}

// modelled reports whether the call has a hand-written transfer function
// (no generic edges are added for it).
func (g *c11Flow) modelled(c CallSite) bool {
	if c.IsStatic("filippo.io/age", "", "Encrypt") || c.IsStatic("filippo.io/age", "", "Decrypt") {
		return true
	}
	if rt := c.RecvType(); rt != nil {
		if c11Implements(rt, g.kvIface) || c11Implements(rt, g.iterIface) {
			return true
		}
	}
	return false
}

func c11Implements(t types.Type, iface *types.Interface) bool {
	if types.Implements(t, iface) {
		return true
	}
	if _, ok := t.(*types.Pointer); !ok {
		if _, isIface := t.Underlying().(*types.Interface); !isIface {
			return types.Implements(types.NewPointer(t), iface)
		}
	}
	return false
}

func (g *c11Flow) call(c CallSite) {
	cc := c.Common()
	args := c.Args()
	var res ssa.Value
	if v := c.Value(); v != nil {
		res = v
	}
	if b, ok := cc.Value.(*ssa.Builtin); ok {
		switch b.Name() {
		case "len", "cap", "close", "delete", "print", "println", "recover", "panic", "min", "max", "clear":
			return
		}
	}
	if callee := c.Callee(); callee != nil && g.inPkg[callee] {
		if len(args) != len(callee.Params) {
			g.problem(c.Pos(), "%s: call of %s with %d arguments for %d parameters", FuncKey(c.Fn), FuncKey(callee), len(args), len(callee.Params))
			return
		}
		for i, a := range args {
			g.flow(g.node(a), g.node(callee.Params[i]), true, callee.Params[i].Type())
		}
		if res != nil {
			if _, multi := res.Type().(*types.Tuple); !multi {
				g.flow(c11Ret{callee, 0}, g.node(res), true, res.Type())
			}
		}
		return
	}
	g.extCalls = append(g.extCalls, c)

	// hand-written models
	switch {
	case c.IsStatic("filippo.io/age", "", "Encrypt"):
		g.encCalls = append(g.encCalls, c)
		if n := g.node(args[0]); n != nil {
			g.srcE = append(g.srcE, c11Source{n, "destination of age.Encrypt in " + FuncKey(c.Fn)})
		}
		return
	case c.IsStatic("filippo.io/age", "", "Decrypt"):
		g.decCalls = append(g.decCalls, c)
		if v := c.Value(); v != nil {
			if out := ResultValue(v, 0); out != nil {
				g.srcD = append(g.srcD, c11Source{g.node(out), "output of age.Decrypt in " + FuncKey(c.Fn)})
			}
		}
		return
	}
	if rt := c.RecvType(); rt != nil && c11Implements(rt, g.kvIface) {
		switch c.MethodName() {
		case "Get", "Find", "Delete", "Close", "Wipe":
			// trusted declassifier: what comes out of the index is what X-taint let in (see Set)
		case "Set":
			g.indexSets = append(g.indexSets, c)
		default:
			g.problem(c.Pos(), "%s: unmodelled meta-index operation %s", FuncKey(c.Fn), c.MethodName())
		}
		return
	}
	if rt := c.RecvType(); rt != nil && c11Implements(rt, g.iterIface) {
		switch c.MethodName() {
		case "Key", "KeyBytes":
			if res != nil {
				g.srcP = append(g.srcP, c11Source{g.node(res), "key read from the meta index (a plaintext ref) in " + FuncKey(c.Fn)})
			}
		case "Value", "ValueBytes", "Next", "Close":
		default:
			g.problem(c.Pos(), "%s: unmodelled index iterator operation %s", FuncKey(c.Fn), c.MethodName())
		}
		return
	}

	// generic external / dynamic call
	rn := g.node(res)
	for i, a := range args {
		an := g.node(a)
		g.edge(an, rn, c11Derive)
		for j, b := range args {
			if i != j && g.obj(b) {
				g.edge(an, g.node(b), c11Mutate)
			}
		}
		if res != nil && c11Objecty(res.Type()) && g.obj(a) {
			g.edge(rn, an, c11Mutate)
		}
		// an external callee may read the fields of a package struct it is handed
		if n := g.localStruct(a.Type()); n != nil {
			st := n.Underlying().(*types.Struct)
			for f := 0; f < st.NumFields(); f++ {
				g.edge(c11Loc{n, f}, an, c11Derive)
			}
		}
		// a literal handed to an external callee is called with values the callee derives from its other arguments
		if mc, ok := originValue(a).(*ssa.MakeClosure); ok {
			if lit, ok := mc.Fn.(*ssa.Function); ok && g.inPkg[lit] {
				for _, prm := range lit.Params {
					for j, b := range args {
						if j != i {
							g.edge(g.node(b), g.node(prm), c11Derive)
						}
					}
				}
			}
		}
	}
}

func (g *c11Flow) reach(srcs []c11Source, kinds map[c11EdgeKind]bool) map[any]any {
	parent := map[any]any{}
	var queue []any
	for _, s := range srcs {
		if s.node == nil {
			continue
		}
		if _, ok := parent[s.node]; !ok {
			parent[s.node] = c11Source{s.node, s.what}
			queue = append(queue, s.node)
		}
	}
	for len(queue) > 0 {
		n := queue[0]
		queue = queue[1:]
		for _, e := range g.succ[n] {
			if !kinds[e.kind] {
				continue
			}
			if _, ok := parent[e.to]; ok {
				continue
			}
			parent[e.to] = n
			queue = append(queue, e.to)
		}
	}
	return parent
}

// witness renders the flow path from a source to node n.
func (g *c11Flow) witness(reach map[any]any, n any) string {
	var path []string
	for i := 0; i < 200; i++ {
		par, ok := reach[n]
		if !ok {
			break
		}
		if src, isSrc := par.(c11Source); isSrc {
			path = append(path, g.nodeName(n)+" = "+src.what)
			break
		}
		path = append(path, g.nodeName(n))
		n = par
	}
	// reverse
	for i, j := 0, len(path)-1; i < j; i, j = i+1, j-1 {
		path[i], path[j] = path[j], path[i]
	}
	if len(path) > 14 {
		path = append(append(append([]string{}, path[:6]...), "..."), path[len(path)-7:]...)
	}
	return strings.Join(path, " -> ")
}

func (g *c11Flow) nodeName(n any) string {
	switch x := n.(type) {
	case c11Loc:
		return "field " + x.T.Obj().Name() + "." + x.T.Underlying().(*types.Struct).Field(x.F).Name()
	case c11Ret:
		return fmt.Sprintf("result %d of %s", x.I, shortFn(x.Fn))
	case *ssa.Parameter:
		return "param " + x.Name() + " of " + shortFn(x.Parent())
	case *ssa.Alloc:
		name := x.Comment
		if name == "" {
			name = x.Name()
		}
		return "var " + name + " in " + shortFn(x.Parent())
	case *ssa.Call:
		return "call " + (CallSite{x.Parent(), x}).CalleeKey() + " in " + shortFn(x.Parent())
	case *ssa.Extract:
		if call, ok := x.Tuple.(*ssa.Call); ok {
			return fmt.Sprintf("result %d of call %s in %s", x.Index, (CallSite{call.Parent(), call}).CalleeKey(), shortFn(x.Parent()))
		}
	case *ssa.Global:
		return "global " + x.Name()
	case ssa.Value:
		if x.Parent() != nil {
			return fmt.Sprintf("%T in %s", x, shortFn(x.Parent()))
		}
		return x.Name()
	}
	return fmt.Sprint(n)
}

func shortFn(fn *ssa.Function) string {
	k := FuncKey(fn)
	return strings.TrimPrefix(k, c11Rel+".")
}

func (g *c11Flow) debugDump() {
	for _, fn := range g.fns {
		for _, b := range fn.Blocks {
			for _, in := range b.Instrs {
				v, ok := in.(ssa.Value)
				if !ok {
					continue
				}
				n := g.node(v)
				if n == nil {
					continue
				}
				l := g.labels(n)
				if os.Getenv("C11_WHY") == shortFn(fn)+":"+v.Name() {
					fmt.Fprintf(os.Stderr, "WHY P: %s\nWHY D: %s\nWHY E: %s\n", g.witness(g.reachP, n), g.witness(g.reachD, n), g.witness(g.reachE, n))
				}
				if l != "" {
					fmt.Fprintf(os.Stderr, "C11 %-40s %-6s %-6s = %s\n", shortFn(fn), l, v.Name(), in.String())
				}
			}
		}
		for _, prm := range fn.Params {
			if n := g.node(prm); n != nil {
				if l := g.labels(n); l != "" {
					fmt.Fprintf(os.Stderr, "C11 %-40s %-6s param %s\n", shortFn(fn), l, prm.Name())
				}
			}
		}
	}
	var locs []string
	for n := range g.succ {
		if l, ok := n.(c11Loc); ok {
			locs = append(locs, fmt.Sprintf("C11 LOC %-30s %s", g.nodeName(l), g.labels(l)))
		}
	}
	sort.Strings(locs)
	for _, s := range locs {
		fmt.Fprintln(os.Stderr, s)
	}
}

func (g *c11Flow) labels(n any) string {
	s := ""
	if _, ok := g.reachP[n]; ok {
		s += "P"
	}
	if _, ok := g.reachD[n]; ok {
		s += "D"
	}
	if _, ok := g.reachE[n]; ok {
		s += "E"
	}
	if g.wrappedStore(n) != "" {
		s += "W"
	}
	return s
}

// wrappedStore returns the name of the wrapped-store field node n may hold ("" if none).
func (g *c11Flow) wrappedStore(n any) string {
	if n == nil {
		return ""
	}
	var names []string
	for name, reach := range g.reachW {
		if _, ok := reach[n]; ok {
			names = append(names, name)
		}
	}
	sort.Strings(names)
	return strings.Join(names, "|")
}

// ---------------------------------------------------------------------------
// X-taint

func c11RuleTaint(p *Program, r *Reporter, g *c11Flow) {
	const rule = "X-taint"
	for i, pr := range g.problems {
		r.Undecided(rule, "flow-model#"+pr, p.Pos(g.problemPos[i]), "the information-flow model cannot follow this construct: "+pr)
	}
	refNamed := p.NamedType("pkg/blob", "Ref")
	isRef := func(t types.Type) bool {
		if sl, ok := t.Underlying().(*types.Slice); ok {
			t = sl.Elem()
		}
		return NamedOf(t) == refNamed
	}
	isContent := func(t types.Type) bool {
		if sl, ok := t.Underlying().(*types.Slice); ok {
			if b, ok := sl.Elem().Underlying().(*types.Basic); ok && b.Kind() == types.Uint8 {
				return true
			}
		}
		return c11Implements(t, g.readerIface)
	}

	// (a) sinks
	nSinks, nArgs := 0, 0
	// checkSink examines one sink call; actual[i] is the value to judge for argument i
	// (the sink's own argument, or the caller's argument when the sink sits in a
	// forwarding helper), store the wrapped store it is applied to.
	checkSink := func(c CallSite, where *ssa.Function, store, via string, actual []ssa.Value) {
		args := c.Args()
		nSinks++
		base := FuncKey(where) + "#" + store + ":" + c11CalleeName(c) + via
		site := p.Pos(c.Pos())
		contentIdx := -1
		for i, a := range args {
			if g.wrappedStore(g.node(a)) == "" && isContent(a.Type()) {
				contentIdx = i
			}
		}
		checked := 0
		for i, a := range args {
			if g.wrappedStore(g.node(a)) != "" {
				continue
			}
			if _, isFunc := a.Type().Underlying().(*types.Signature); isFunc {
				continue
			}
			if c11IsContext(a.Type()) {
				continue
			}
			n := g.node(actual[i])
			checked++
			nArgs++
			construct := base + "#" + c11ParamName(c, i)
			if n == nil {
				r.OKTable(rule, construct, site, "constant or size/flag argument: carries no content")
				continue
			}
			if _, bad := g.reachP[n]; bad {
				r.Violation(rule, construct, site, fmt.Sprintf("plaintext reaches the wrapped store %q: %s", store, g.witness(g.reachP, n)))
				continue
			}
			if _, bad := g.reachD[n]; bad {
				r.Violation(rule, construct, site, fmt.Sprintf("decrypted data reaches the wrapped store %q: %s", store, g.witness(g.reachD, n)))
				continue
			}
			_, hasE := g.reachE[n]
			needE := contentIdx >= 0 && (isContent(a.Type()) || isRef(a.Type()))
			if needE && !hasE {
				r.Violation(rule, construct, site, fmt.Sprintf("this call uploads content to the wrapped store %q but argument %s does not derive from a buffer age.Encrypt wrote into", store, c11ParamName(c, i)))
				continue
			}
			detail := "no flow from API plaintext, index keys or decrypt output reaches this argument"
			if hasE {
				detail += "; it derives from an age.Encrypt target (" + g.witness(g.reachE, n) + ")"
			}
			r.OK(rule, construct, site, detail)
		}
		if checked == 0 {
			r.OKTable(rule, base+"#no-data-args", site, "the call hands the wrapped store only a context and function values")
		}
		// the name an upload is stored under is the hash of the uploaded buffer
		if contentIdx >= 0 {
			for i, a := range args {
				if g.wrappedStore(g.node(a)) != "" || !isRef(a.Type()) {
					continue
				}
				construct := base + "#" + c11ParamName(c, i) + "=hash(uploaded)"
				ok, why := g.refOfSameBufferVia(where, actual[i], actual[contentIdx])
				r.Check(ok, rule, construct, site,
					"the ref is blob.RefFromBytes/RefFromString of bytes taken from the same buffer that is uploaded",
					"the ref the ciphertext is stored under is not computed from the uploaded buffer ("+why+"): Fetch's digest check against that name would fail or a different blob would be overwritten")
			}
		}
	}
	for _, c := range g.extCalls {
		args := c.Args()
		store := ""
		var storeArg ssa.Value
		for _, a := range args {
			if s := g.wrappedStore(g.node(a)); s != "" {
				store, storeArg = s, a
			}
		}
		if store == "" {
			continue
		}
		// forwarding helper: the store is a parameter of a top-level package function with callers in the
		// package => judge the arguments at each caller (bound 1), where store and buffers are not merged
		fn := c.Fn
		wi := g.paramIndexOfNode(fn, g.node(storeArg))
		var callers []CallSite
		if wi >= 0 && fn.Parent() == nil {
			for _, f := range g.fns {
				for _, cc := range CallsIn(f, false) {
					if cc.Callee() == fn && len(cc.Args()) == len(fn.Params) {
						callers = append(callers, cc)
					}
				}
			}
		}
		if len(callers) == 0 {
			checkSink(c, fn, store, "", args)
			continue
		}
		for _, cc := range callers {
			cstore := g.wrappedStore(g.node(cc.Args()[wi]))
			if cstore == "" {
				continue
			}
			actual := make([]ssa.Value, len(args))
			for i, a := range args {
				actual[i] = a
				if pi := g.paramIndexOfNode(fn, g.node(a)); pi >= 0 {
					actual[i] = cc.Args()[pi]
				}
			}
			checkSink(c, cc.Fn, cstore, " via "+shortFn(fn), actual)
		}
	}
	// W values must not leave through constructs that lose their identity
	for _, fn := range g.fns {
		for _, b := range fn.Blocks {
			for _, in := range b.Instrs {
				var lost ssa.Value
				switch x := in.(type) {
				case *ssa.Send:
					lost = x.X
				case *ssa.MapUpdate:
					lost = x.Value
				}
				if lost != nil && g.wrappedStore(g.node(lost)) != "" {
					r.Undecided(rule, FuncKey(fn)+"#wrapped-store-escapes", p.Pos(in.Pos()), "a wrapped store is sent on a channel / put in a map; calls on it after that are not recognised as sinks")
				}
			}
		}
	}
	r.Analysed("sink_calls", nSinks)
	r.Analysed("sink_args", nArgs)

	// (b) values written to the meta index
	for _, c := range g.indexSets {
		args := c.Args() // recv, key, value
		if len(args) < 3 {
			continue
		}
		n := g.node(args[2])
		construct := FuncKey(c.Fn) + "#index.Set#value"
		if _, bad := g.reachP[n]; bad {
			r.Violation(rule, construct, p.Pos(c.Pos()), "the value half of a meta-index row (later parsed as the encrypted ref and fetched from the wrapped store) derives from API plaintext: "+g.witness(g.reachP, n))
		} else {
			r.OK(rule, construct, p.Pos(c.Pos()), "the index value does not derive from API plaintext (sizes excepted)")
		}
	}

	// (c) keys: every age.Encrypt / age.Decrypt is keyed from the one identity field
	keyReach := g.reach([]c11Source{{g.keyField, "identity field"}}, map[c11EdgeKind]bool{c11Copy: true, c11CopyRev: true, c11Derive: true})
	for _, c := range append(append([]CallSite{}, g.encCalls...), g.decCalls...) {
		args := c.Args()
		construct := FuncKey(c.Fn) + "#" + c11CalleeName(c) + "#key"
		ok := len(args) >= 2
		if ok {
			_, ok = keyReach[g.node(args[1])]
		}
		r.Check(ok, rule, construct, p.Pos(c.Pos()),
			"the recipient/identity derives from the storage's identity field (the same field for encryption and decryption)",
			"the recipient/identity of this call does not derive from the storage's identity field: blobs become undecryptable or are encrypted to a foreign key")
	}
	if len(g.encCalls) == 0 {
		r.Violation(rule, c11Rel+"#age.Encrypt", "?", "package encrypt no longer calls age.Encrypt")
	}
	r.Floor(rule, 16)
}

func c11CalleeName(c CallSite) string {
	k := c.CalleeKey()
	if i := strings.LastIndex(k, "."); i >= 0 && strings.HasPrefix(k, "iface:") {
		return k[i+1:]
	}
	if i := strings.LastIndex(k, "/"); i >= 0 {
		return k[i+1:]
	}
	return k
}

// c11ParamName names argument i (index into c.Args(), receiver first) by the
// callee's parameter name.
func c11ParamName(c CallSite, i int) string {
	sig := c.Common().Signature()
	j := i
	if c.Common().IsInvoke() || sig.Recv() != nil {
		j = i - 1
	}
	if j < 0 {
		return "recv"
	}
	ps := sig.Params()
	if ps.Len() == 0 {
		return fmt.Sprintf("arg%d", j)
	}
	if j >= ps.Len() {
		j = ps.Len() - 1
	}
	if name := ps.At(j).Name(); name != "" && name != "_" {
		return name
	}
	return fmt.Sprintf("arg%d", j)
}

// c11RefOfSameBuffer: ref is (derived from) blob.RefFromBytes/RefFromString/RefFromHash
// applied to bytes that come from one of the buffer objects the uploaded
// content argument is made of.
func c11RefOfSameBuffer(ref, content ssa.Value) (bool, string) {
	roots := c11BufferRoots(content)
	if len(roots) == 0 {
		return false, "the uploaded content has no identifiable buffer"
	}
	foundHash := false
	same := DependsOn(ref, func(v ssa.Value) bool {
		call, ok := v.(*ssa.Call)
		if !ok {
			return false
		}
		cs := CallSite{call.Parent(), call}
		if !(cs.IsStatic("perkeep.org/pkg/blob", "", "RefFromBytes") || cs.IsStatic("perkeep.org/pkg/blob", "", "RefFromString") || cs.IsStatic("perkeep.org/pkg/blob", "", "RefFromHash")) {
			return false
		}
		foundHash = true
		for r := range c11BufferRoots(call.Call.Args[0]) {
			if roots[r] {
				return true
			}
		}
		return false
	})
	if same {
		return true, ""
	}
	if !foundHash {
		return false, "no blob.RefFromBytes/RefFromString/RefFromHash in its derivation"
	}
	return false, "it hashes a different buffer"
}

// refOfSameBufferVia is c11RefOfSameBuffer, except that when both the ref and the
// content are parameters of fn (a ref+bytes forwarding helper) the check is made
// at every caller of fn in the package instead (bound 1).
func (g *c11Flow) refOfSameBufferVia(fn *ssa.Function, ref, content ssa.Value) (bool, string) {
	refPrm, isRefPrm := originValue(ref).(*ssa.Parameter)
	var contentPrm *ssa.Parameter
	for root := range c11BufferRoots(content) {
		if prm, ok := root.(*ssa.Parameter); ok {
			contentPrm = prm
		}
	}
	if !isRefPrm || contentPrm == nil || fn.Parent() != nil {
		return c11RefOfSameBuffer(ref, content)
	}
	ri, ci := -1, -1
	for i, prm := range fn.Params {
		if prm == refPrm {
			ri = i
		}
		if prm == contentPrm {
			ci = i
		}
	}
	callers := 0
	for _, f := range g.fns {
		for _, c := range CallsIn(f, false) {
			if c.Callee() != fn || ri < 0 || ci < 0 {
				continue
			}
			callers++
			args := c.Args()
			if ok, why := c11RefOfSameBuffer(args[ri], args[ci]); !ok {
				return false, "at the caller " + shortFn(f) + " of the forwarding helper: " + why
			}
		}
	}
	if callers == 0 {
		return false, "ref and content are parameters of a helper that has no caller in the package"
	}
	return true, ""
}

// c11BufferRoots returns the buffer objects a reader/bytes value is a view of:
// identity conversions and the standard view constructors (bytes.NewReader,
// (*bytes.Buffer).Bytes ...) are looked through; any other call result,
// allocation or parameter is a root.
func c11BufferRoots(v ssa.Value) map[ssa.Value]bool {
	roots := map[ssa.Value]bool{}
	seen := map[ssa.Value]bool{}
	var walk func(v ssa.Value, depth int)
	walk = func(v ssa.Value, depth int) {
		v = originValue(v)
		if v == nil || seen[v] || depth > 40 {
			return
		}
		seen[v] = true
		switch x := v.(type) {
		case *ssa.Const:
			return
		case *ssa.Slice:
			walk(x.X, depth+1)
			return
		case *ssa.Convert:
			walk(x.X, depth+1)
			return
		case *ssa.TypeAssert:
			walk(x.X, depth+1)
			return
		case *ssa.Phi:
			for _, e := range x.Edges {
				walk(e, depth+1)
			}
			return
		case *ssa.Call:
			cs := CallSite{x.Parent(), x}
			for _, w := range [][3]string{
				{"bytes", "", "NewReader"}, {"bytes", "", "NewBuffer"}, {"bytes", "", "NewBufferString"},
				{"strings", "", "NewReader"}, {"io", "", "NopCloser"}, {"bufio", "", "NewReader"},
				{"bytes", "Buffer", "Bytes"}, {"bytes", "Buffer", "String"}, {"io", "", "LimitReader"},
			} {
				if cs.IsStatic(w[0], w[1], w[2]) {
					walk(x.Call.Args[0], depth+1)
					return
				}
			}
		}
		roots[v] = true
	}
	walk(v, 0)
	return roots
}

// ---------------------------------------------------------------------------
// Shared helpers for X-fetch / X-compact

var c11FwdKinds = map[c11EdgeKind]bool{c11Copy: true, c11Derive: true}
var c11AllKinds = map[c11EdgeKind]bool{c11Copy: true, c11CopyRev: true, c11Derive: true, c11Mutate: true}

// flows reports whether data may flow from value a to value b in the graph.
func (g *c11Flow) flows(a, b ssa.Value, kinds map[c11EdgeKind]bool) bool {
	na, nb := g.node(a), g.node(b)
	if na == nil || nb == nil {
		return false
	}
	if na == nb {
		return true
	}
	_, ok := g.reach([]c11Source{{na, ""}}, kinds)[nb]
	return ok
}

func c11LastInstr(b *ssa.BasicBlock) ssa.Instruction { return b.Instrs[len(b.Instrs)-1] }

// c11SinksIn lists the sink calls (calls handed a wrapped store) in fn (deep).
func (g *c11Flow) sinksIn(fn *ssa.Function, deep bool) []c11Sink {
	var out []c11Sink
	for _, c := range g.extCalls {
		if c.Fn != fn && !(deep && c11Encloses(fn, c.Fn)) {
			continue
		}
		for _, a := range c.Args() {
			if s := g.wrappedStore(g.node(a)); s != "" {
				out = append(out, c11Sink{c, s})
				break
			}
		}
	}
	return out
}

func c11Encloses(outer, inner *ssa.Function) bool {
	for f := inner; f != nil; f = f.Parent() {
		if f == outer {
			return true
		}
	}
	return false
}

// contentArg returns the reader/bytes argument a sink uploads (nil if none).
func (g *c11Flow) contentArg(c CallSite) ssa.Value {
	var out ssa.Value
	for _, a := range c.Args() {
		if g.wrappedStore(g.node(a)) != "" {
			continue
		}
		t := a.Type()
		if sl, ok := t.Underlying().(*types.Slice); ok {
			if b, ok := sl.Elem().Underlying().(*types.Basic); ok && b.Kind() == types.Uint8 {
				out = a
			}
		} else if c11Implements(t, g.readerIface) {
			out = a
		}
	}
	return out
}

func (g *c11Flow) refArg(p *Program, c CallSite) ssa.Value {
	refNamed := p.NamedType("pkg/blob", "Ref")
	for _, a := range c.Args() {
		if NamedOf(a.Type()) == refNamed {
			if _, isPtr := a.Type().(*types.Pointer); !isPtr {
				return a
			}
		}
	}
	return nil
}

// paramIndexOfNode returns the index of the parameter of fn whose node is n (-1 if none).
func (g *c11Flow) paramIndexOfNode(fn *ssa.Function, n any) int {
	for i, prm := range fn.Params {
		if g.node(prm) == n && n != nil {
			return i
		}
	}
	return -1
}

// failureLeaks explores the paths after call on which its error result is
// non-nil and returns the exits that return a possibly-nil error.
func c11FailureLeaks(call *ssa.Call) ([]Leak, string) {
	ev, hasErr, discarded := ErrValue(call)
	if !hasErr {
		return nil, "call has no error result"
	}
	if discarded {
		return nil, "the error result is discarded"
	}
	fn := call.Parent()
	idx := ErrResultIndex(fn)
	if idx < 0 {
		return nil, "enclosing function returns no error"
	}
	resolved := map[*ssa.Return][]ssa.Value{}
	for _, ri := range Returns(fn) {
		resolved[ri.Ret] = ri.Results
	}
	leaks := LeakingExits(PathQuery{
		Start: call,
		Stop:  func(ssa.Instruction) bool { return false },
		Assume: func(cond ssa.Value) (bool, bool) {
			if k, isNil := condSaysNil(cond, true, ev); k {
				// cond==true says ev is nil? we know ev is non-nil
				return true, !isNil
			}
			return false, false
		},
		ExitOK: func(exit ssa.Instruction) bool {
			ret, ok := exit.(*ssa.Return)
			if !ok {
				return true
			}
			res := resolved[ret]
			if res == nil || idx >= len(res) {
				return false
			}
			v := res[idx]
			if sameOrigin(v, ev) || isNonNilErrorExpr(v) {
				return true
			}
			if k, isNil := NilFact(ret.Block(), v); k && !isNil {
				return true
			}
			return false
		},
		IgnorePanics: true,
	})
	return leaks, ""
}

// ---------------------------------------------------------------------------
// X-fetch

func c11RuleFetch(p *Program, r *Reporter, g *c11Flow) {
	const rule = "X-fetch"
	fetchIface := p.Iface("pkg/blob", "Fetcher")
	fetchFn, _ := p.MethodOf(g.storeType, fetchIface.Method(0).Name())
	if fetchFn == nil || fetchFn.Blocks == nil {
		brokenf("anchor unresolved: %s.%s method of blob.Fetcher", g.storeType.Obj().Name(), fetchIface.Method(0).Name())
	}
	if len(g.encCalls) != 1 || len(g.decCalls) != 1 {
		r.Undecided(rule, c11Rel+"#age-call-sites", "?", fmt.Sprintf("expected exactly one age.Encrypt and one age.Decrypt call site in the package, found %d/%d: cannot identify the encrypt/decrypt helpers by role", len(g.encCalls), len(g.decCalls)))
		r.Floor(rule, 10)
		return
	}
	encCall, decCall := g.encCalls[0], g.decCalls[0]
	encFn, decFn := encCall.Fn, decCall.Fn
	fk := FuncKey(fetchFn)

	// --- roles inside decFn / encFn
	decCipherIdx := g.paramIndexOfNode(decFn, g.node(decCall.Args()[0]))
	decPlainIdx := -1
	for i, prm := range decFn.Params {
		if i == decCipherIdx || !c11Objecty(prm.Type()) {
			continue
		}
		if out := ResultValue(decCall.Value(), 0); out != nil && g.flows(out, prm, c11AllKinds) && NamedOf(prm.Type()) != g.storeType {
			decPlainIdx = i
		}
	}
	encCipherIdx := g.paramIndexOfNode(encFn, g.node(encCall.Args()[0]))
	if decCipherIdx < 0 || decPlainIdx < 0 || encCipherIdx < 0 || decFn.Parent() != nil || encFn.Parent() != nil {
		r.Undecided(rule, c11Rel+"#crypto-helper-roles", p.Pos(decCall.Pos()), "cannot identify which parameters of the functions calling age.Encrypt/age.Decrypt are the ciphertext and plaintext buffers")
		r.Floor(rule, 10)
		return
	}

	// --- Fetch
	var F *c11Sink
	for _, s := range g.sinksIn(fetchFn, false) {
		s := s
		if v := s.c.Value(); v != nil {
			if out := ResultValue(v, 0); out != nil && c11Implements(out.Type(), g.readerIface) {
				if F != nil {
					r.Undecided(rule, fk+"#wrapped-fetch", p.Pos(s.c.Pos()), "more than one read from a wrapped store in Fetch")
				}
				F = &s
			}
		}
	}
	var decInFetch *ssa.Call
	for _, c := range CallsIn(fetchFn, false) {
		if c.Callee() == decFn && c.Value() != nil {
			decInFetch = c.Value()
		}
	}
	isHashMatches := func(c CallSite) bool { return c.IsStatic("perkeep.org/pkg/blob", "Ref", "HashMatches") }
	nrs := MaybeNilErrorReturns(fetchFn)
	if F == nil || decInFetch == nil {
		r.Undecided(rule, fk+"#shape", p.Pos(fetchFn.Pos()), "Fetch does not itself read from a wrapped store and call the decrypt helper (helper indirection is not followed): cannot decide the authentication order")
	} else {
		fReader := ResultValue(F.c.Value(), 0)
		fRef := g.refArg(p, F.c)
		resolved := map[*ssa.Return][]ssa.Value{}
		for _, ri := range Returns(fetchFn) {
			resolved[ri.Ret] = ri.Results
		}
		for _, nr := range nrs {
			at := c11LastInstr(nr.From)
			site := p.Pos(nr.Ret.Pos())
			// (a) ciphertext digest
			known, val, H := BoolCallFact(nr.From, isHashMatches)
			switch {
			case !known || !val:
				r.Violation(rule, fk+"#success-return#hash-checked", site, "a success return of Fetch is not dominated by blob.Ref.HashMatches()==true: ciphertext swapped for another stored blob (or corrupted in a way age does not see, e.g. a different valid blob) would be returned")
			case fRef == nil || !sameOrigin(H.Args()[0], fRef):
				r.Violation(rule, fk+"#success-return#hash-checked", site, "the HashMatches that guards the success return is not called on the ref that was fetched from the wrapped store")
			default:
				// the hash was fed from the reader the store returned, before the comparison
				h := H.Args()[1]
				cipherArg := decInFetch.Call.Args[decCipherIdx]
				var copyCall *CallSite
				fed := false
				for _, c := range CallsIn(fetchFn, false) {
					c := c
					if c.Callee() != nil && g.inPkg[c.Callee()] || c.Instr == H.Instr || c.Instr == F.c.Instr || !Precedes(c.Instr, H.Instr) {
						continue
					}
					readsStore, feedsHash, fillsBuf := false, false, false
					for _, a := range c.Args() {
						if g.flows(fReader, a, c11FwdKinds) {
							readsStore = true
						}
						if g.flows(h, a, c11FwdKinds) {
							feedsHash = true
						}
						if g.flows(cipherArg, a, c11FwdKinds) {
							fillsBuf = true
						}
					}
					if readsStore && feedsHash && (copyCall == nil || fillsBuf) {
						copyCall = &c
						fed = fillsBuf
					}
				}
				if copyCall == nil {
					r.Violation(rule, fk+"#success-return#hash-checked", site, "HashMatches guards the success return, but no call before it combines the reader returned by the wrapped store with that hash: the digest compared is not that of the bytes read")
					break
				}
				r.OK(rule, fk+"#success-return#hash-checked", site, "dominated by HashMatches()==true on the fetched ref, with the hash fed from the wrapped store's reader by "+copyCall.CalleeKey()+" before the comparison")
				// (b) decrypt of the same bytes
				r.Check(fed, rule, fk+"#success-return#decrypts-read-bytes", site,
					"the buffer handed to the decrypt helper is filled by the same copy that feeds the hash",
					"the ciphertext buffer handed to the decrypt helper is not filled by the copy that feeds the checked hash: the bytes decrypted are not the bytes whose digest was compared")
			}
			// (c) decrypt success
			ok, why := SuccessDominates(decInFetch, at)
			r.Check(ok, rule, fk+"#success-return#decrypt-ok", site,
				"dominated by the success edge of "+shortFn(decFn),
				"a success return of Fetch is not on the success edge of "+shortFn(decFn)+" ("+why+"): unauthenticated or undecryptable ciphertext would be returned as a blob")
			// (d) reader and size provenance
			res := resolved[nr.Ret]
			if len(res) == 3 {
				plainArg := decInFetch.Call.Args[decPlainIdx]
				r.Check(g.flows(plainArg, res[0], c11FwdKinds), rule, fk+"#success-return#returns-decrypt-output", site,
					"the returned reader is built from the buffer the decrypt helper wrote the plaintext to",
					"the reader returned on success is not built from the plaintext buffer of the decrypt helper")
				okSize := false
				var metaCall *ssa.Call
				if ex, isEx := originValue(fRef).(*ssa.Extract); isEx {
					metaCall, _ = ex.Tuple.(*ssa.Call)
				}
				if metaCall != nil {
					takesParam := false
					for _, a := range metaCall.Call.Args {
						if DependsOn(a, func(v ssa.Value) bool {
							prm, ok := v.(*ssa.Parameter)
							return ok && prm.Parent() == fetchFn && prm != fetchFn.Params[0] && !c11IsContext(prm.Type())
						}) {
							takesParam = true
						}
					}
					if sz, isEx := originValue(res[1]).(*ssa.Extract); isEx && sz.Tuple == ssa.Value(metaCall) && takesParam {
						okSize = true
					}
				}
				r.Check(okSize, rule, fk+"#success-return#indexed-size-and-ref", site,
					"the ref fetched from the wrapped store and the returned size both come from one index look-up of the requested ref",
					"the returned size and the fetched encrypted ref do not come from the same index look-up of the requested plaintext ref")
			}
		}
		if len(nrs) == 0 {
			r.Violation(rule, fk+"#success-return", p.Pos(fetchFn.Pos()), "Fetch has no success return")
		}
	}

	// --- decrypt helper
	dk := FuncKey(decFn)
	decV := decCall.Value()
	decOut := ResultValue(decV, 0)
	var decCopy *ssa.Call
	for _, c := range CallsIn(decFn, false) {
		if c.Value() == nil || c.Instr == decCall.Instr {
			continue
		}
		src, dst := false, false
		for _, a := range c.Args() {
			if decOut != nil && g.node(a) == g.node(decOut) {
				src = true
			}
			if g.node(a) == g.node(decFn.Params[decPlainIdx]) {
				dst = true
			}
		}
		if src && dst {
			decCopy = c.Value()
		}
	}
	// version byte written by the encrypt helper
	var encVersion *ssa.Const
	for _, c := range CallsIn(encFn, false) {
		args := c.Args()
		if len(args) == 2 && g.node(args[0]) == g.node(encFn.Params[encCipherIdx]) && Precedes(c.Instr, encCall.Instr) {
			if k, ok := args[1].(*ssa.Const); ok {
				encVersion = k
			}
		}
	}
	for _, nr := range MaybeNilErrorReturns(decFn) {
		at := c11LastInstr(nr.From)
		site := p.Pos(nr.Ret.Pos())
		ok, why := SuccessDominates(decV, at)
		r.Check(ok, rule, dk+"#success-return#age-decrypt-ok", site, "dominated by the success edge of age.Decrypt", "a success return of the decrypt helper is not on the success edge of age.Decrypt ("+why+")")
		if decCopy == nil {
			r.Violation(rule, dk+"#success-return#copy-ok", site, "no call copies the reader returned by age.Decrypt into the plaintext parameter")
		} else {
			ok, why = SuccessDominates(decCopy, at)
			r.Check(ok, rule, dk+"#success-return#copy-ok", site,
				"dominated by the success edge of the copy of age's output (age authenticates each chunk while it is read)",
				"a success return of the decrypt helper is not on the success edge of the copy of age.Decrypt's output ("+why+"): age reports tampering and truncation as a read error, which would be ignored")
		}
		// version byte
		okVer, verDetail := false, "no comparison of a byte read from the ciphertext against a constant guards the success return"
		for _, f := range FactsAt(nr.From) {
			bo, isBin := f.Cond.(*ssa.BinOp)
			if !isBin || (bo.Op != token.EQL && bo.Op != token.NEQ) {
				continue
			}
			k, isConst := bo.Y.(*ssa.Const)
			other := bo.X
			if !isConst {
				k, isConst = bo.X.(*ssa.Const)
				other = bo.Y
			}
			if !isConst || k.Value == nil {
				continue
			}
			if b, ok := other.Type().Underlying().(*types.Basic); !ok || b.Kind() != types.Uint8 {
				continue
			}
			if !g.flows(decFn.Params[decCipherIdx], other, c11AllKinds) {
				continue
			}
			equal := (bo.Op == token.EQL) == f.Val
			switch {
			case !equal:
				verDetail = "the success return is on the edge where the version byte differs from the constant"
			case encVersion == nil:
				verDetail = "the encrypt helper writes no constant version byte before the age stream"
			case encVersion.Int64() != k.Int64():
				verDetail = fmt.Sprintf("the decrypt helper accepts version byte %d but the encrypt helper writes %d", k.Int64(), encVersion.Int64())
			default:
				okVer = true
				verDetail = fmt.Sprintf("guarded by version byte == %d, the constant the encrypt helper writes first", k.Int64())
			}
		}
		r.Check(okVer, rule, dk+"#success-return#version-byte", site, verDetail, verDetail+": every stored blob would be refused (or foreign formats accepted)")
	}

	// --- encrypt helper
	ek := FuncKey(encFn)
	encV := encCall.Value()
	encW := ResultValue(encV, 0)
	var encCopy, encClose *ssa.Call
	for _, c := range CallsIn(encFn, false) {
		if c.Value() == nil || c.Instr == encCall.Instr || encW == nil {
			continue
		}
		args := c.Args()
		if len(args) == 1 && g.node(args[0]) == g.node(encW) && c.MethodName() == "Close" {
			encClose = c.Value()
			continue
		}
		dst, src := false, false
		for _, a := range args {
			if g.node(a) == g.node(encW) {
				dst = true
			}
			for i, prm := range encFn.Params {
				if i != encCipherIdx && c11Objecty(prm.Type()) && NamedOf(prm.Type()) != g.storeType && g.node(a) == g.node(prm) {
					src = true
				}
			}
		}
		if dst && src {
			encCopy = c.Value()
		}
	}
	for _, nr := range MaybeNilErrorReturns(encFn) {
		at := c11LastInstr(nr.From)
		site := p.Pos(nr.Ret.Pos())
		if encCopy == nil {
			r.Violation(rule, ek+"#success-return#copy-ok", site, "no call copies the plaintext parameter into the writer returned by age.Encrypt")
		} else {
			ok, why := SuccessDominates(encCopy, at)
			r.Check(ok, rule, ek+"#success-return#copy-ok", site, "dominated by the success edge of the copy into the age writer", "a success return of the encrypt helper is not on the success edge of the copy into the age writer ("+why+"): a partially encrypted blob would be stored and acknowledged")
		}
		if encClose == nil {
			r.Violation(rule, ek+"#success-return#close-ok", site, "the writer returned by age.Encrypt is never closed: the final chunk is not flushed and the blob cannot be decrypted")
		} else {
			ok, why := SuccessDominates(encClose, at)
			r.Check(ok, rule, ek+"#success-return#close-ok", site, "dominated by the success edge of Close on the age writer (flushes the final authenticated chunk)", "a success return of the encrypt helper is not on the success edge of Close on the age writer ("+why+"): the final chunk may be missing, the stored blob then fails authentication on every fetch")
		}
	}
	r.Floor(rule, 10)
}

// ---------------------------------------------------------------------------
// X-compact

func c11RuleCompact(p *Program, r *Reporter, g *c11Flow) {
	const rule = "X-compact"
	if len(g.encCalls) != 1 || len(g.decCalls) != 1 {
		r.Undecided(rule, c11Rel+"#age-call-sites", "?", "cannot identify the encrypt/decrypt helpers by role")
		r.Floor(rule, 12)
		return
	}
	encFn, decFn := g.encCalls[0].Fn, g.decCalls[0].Fn
	encCipherIdx := g.paramIndexOfNode(encFn, g.node(g.encCalls[0].Args()[0]))
	removerIface := p.Iface("pkg/blobserver", "BlobRemover")
	removeName := removerIface.Method(0).Name()

	// --- (1) compaction: upload before delete
	nRemove := 0
	for _, fn := range g.fns {
		for _, rm := range g.sinksIn(fn, false) {
			if rm.c.MethodName() != removeName {
				continue
			}
			nRemove++
			fk := FuncKey(fn)
			site := p.Pos(rm.c.Pos())
			// the upload: a content sink on the same store in this function, or a direct call of a
			// package function that contains one (bound 1)
			var upload *ssa.Call
			for _, u := range g.sinksIn(fn, false) {
				if u.store == rm.store && g.contentArg(u.c) != nil && u.c.Value() != nil {
					if ok, _ := SuccessDominates(u.c.Value(), rm.c.Instr); ok {
						upload = u.c.Value()
					}
				}
			}
			if upload == nil {
				for _, c := range CallsIn(fn, false) {
					h := c.Callee()
					if h == nil || !g.inPkg[h] || h.Parent() != nil || c.Value() == nil {
						continue
					}
					for _, u := range g.sinksIn(h, false) {
						if strings.Contains("|"+u.store+"|", "|"+rm.store+"|") && g.contentArg(u.c) != nil {
							if _, hasErr, _ := ErrValue(c.Value()); hasErr {
								if ok, _ := SuccessDominates(c.Value(), rm.c.Instr); ok {
									upload = c.Value()
								}
							}
						}
					}
				}
			}
			if upload == nil {
				r.Violation(rule, fk+"#"+rm.store+"."+removeName+"#after-upload", site,
					"blobs are removed from the wrapped store "+rm.store+" without being dominated by the success edge of an upload to that store (in the same function or a helper it calls): if the packed meta blob was not stored, the only copies of these rows are deleted and the plaintext->ciphertext mapping is lost")
				continue
			}
			upCS := CallSite{fn, upload}
			r.OK(rule, fk+"#"+rm.store+"."+removeName+"#after-upload", site, "dominated by the success edge of "+c11CalleeName(upCS)+" to the same store")
			// the upload is of successfully encrypted content
			var enc *ssa.Call
			for _, c := range CallsIn(fn, false) {
				if c.Callee() != encFn || c.Value() == nil || encCipherIdx < 0 {
					continue
				}
				for _, a := range upCS.Args() {
					if g.wrappedStore(g.node(a)) == "" && g.flows(c.Value().Call.Args[encCipherIdx], a, c11FwdKinds) {
						enc = c.Value()
					}
				}
			}
			if enc == nil {
				r.Undecided(rule, fk+"#"+rm.store+"."+removeName+"#upload-encrypted-ok", site, "the uploaded replacement is not encrypted by a direct call of the encrypt helper in this function")
			} else {
				ok, why := SuccessDominates(enc, upload)
				r.Check(ok, rule, fk+"#"+rm.store+"."+removeName+"#upload-encrypted-ok", site,
					"the upload is dominated by the success edge of the encrypt helper for the uploaded buffer",
					"the replacement blob is uploaded although the encrypt helper may have failed ("+why+"): a truncated packed meta blob replaces the small ones")
			}
			// a failed index look-up never reaches the removal
			for _, c := range CallsIn(fn, false) {
				if rt := c.RecvType(); rt == nil || !c11Implements(rt, g.kvIface) || c.MethodName() != "Get" || c.Value() == nil {
					continue
				}
				ev, _, discarded := ErrValue(c.Value())
				bad := ""
				if discarded || ev == nil {
					bad = "the error of the index look-up is discarded"
				} else {
					reach := ReachableFrom(c.Instr, func(in ssa.Instruction) bool {
						// stop where the look-up is known to have succeeded
						if in != in.Block().Instrs[0] {
							return false
						}
						k, isNil := NilFact(in.Block(), ev)
						return k && isNil
					})
					// the failure edge: blocks where ev is known non-nil
					for in := range reach {
						if k, isNil := NilFact(in.Block(), ev); k && !isNil {
							if ReachableFrom(in, nil)[rm.c.Instr] {
								bad = "the removal is reachable from the failure edge of the index look-up"
							}
						}
					}
				}
				r.Check(bad == "", rule, fk+"#"+rm.store+"."+removeName+"#not-after-failed-lookup", p.Pos(c.Pos()),
					"no path from the failure edge of the index look-up reaches the removal",
					bad+": the packed meta blob would lack that row while the small meta blob holding it is deleted")
			}
			c11CompactCoverage(p, r, g, fn, rm, enc)
		}
	}
	if nRemove == 0 {
		r.Note("no removal from a wrapped store found: compaction rules have no instance")
	}

	// --- (2) restart path
	// scan function: the top-level function that enumerates a wrapped store with a callback
	var scanFn *ssa.Function
	var enumSink *c11Sink
	for _, fn := range g.fns {
		if fn.Parent() != nil {
			continue
		}
		for _, s := range g.sinksIn(fn, true) {
			s := s
			if len(FuncArgClosures(s.c)) > 0 {
				if scanFn != nil && scanFn != fn {
					r.Undecided(rule, c11Rel+"#scan-function", p.Pos(s.c.Pos()), "more than one function enumerates a wrapped store with a callback")
				}
				scanFn, enumSink = fn, &s
			}
		}
	}
	if scanFn == nil {
		r.Violation(rule, c11Rel+"#restart-scan", "?", "no function enumerates a wrapped store with a callback any more: the meta index cannot be rebuilt from the wrapped stores")
		r.Floor(rule, 12)
		return
	}
	sk := FuncKey(scanFn)
	metaStore := enumSink.store
	// (2a) constructor: a store is returned only after a successful scan
	nCtor := 0
	for _, fn := range g.fns {
		if fn.Parent() != nil {
			continue
		}
		var alloc *ssa.Alloc
		for _, b := range fn.Blocks {
			for _, in := range b.Instrs {
				if al, ok := in.(*ssa.Alloc); ok && NamedOf(al.Type().(*types.Pointer).Elem()) == g.storeType {
					if _, isPtr := al.Type().(*types.Pointer).Elem().(*types.Pointer); !isPtr {
						alloc = al
					}
				}
			}
		}
		if alloc == nil {
			continue
		}
		nCtor++
		var scan *ssa.Call
		for _, c := range CallsIn(fn, false) {
			if c.Callee() == scanFn && c.Value() != nil && sameOrigin(c.Args()[0], alloc) {
				scan = c.Value()
			}
		}
		for _, nr := range MaybeNilErrorReturns(fn) {
			site := p.Pos(nr.Ret.Pos())
			if scan == nil {
				r.Violation(rule, FuncKey(fn)+"#success-return#scan-ok", site, "the constructor returns a store without calling "+shortFn(scanFn)+" on it: after a restart with an empty meta index every stored blob is invisible")
				continue
			}
			ok, why := SuccessDominates(scan, c11LastInstr(nr.From))
			r.Check(ok, rule, FuncKey(fn)+"#success-return#scan-ok", site,
				"dominated by the success edge of "+shortFn(scanFn)+" on the new store",
				"the constructor can return a store although "+shortFn(scanFn)+" did not succeed ("+why+"): blobs whose meta was not read are invisible and would be stored twice")
		}
	}
	if nCtor == 0 {
		r.Violation(rule, c11Rel+"#constructor", "?", "no function constructs the storage type")
	}

	// (2b) scan: every enumerated ref is fetched from the same store and handed to the process function
	var lit *ssa.Function
	if cl := FuncArgClosures(enumSink.c); len(cl) == 1 {
		lit = cl[0]
	}
	var fetchSink *c11Sink
	if lit != nil {
		for _, s := range g.sinksIn(lit, true) {
			s := s
			if s.store != metaStore || s.c.Value() == nil {
				continue
			}
			if out := ResultValue(s.c.Value(), 0); out != nil && c11Implements(out.Type(), g.readerIface) {
				ref := g.refArg(p, s.c)
				for _, prm := range lit.Params {
					if ref != nil && g.flows(prm, ref, c11FwdKinds) {
						fetchSink = &s
					}
				}
			}
		}
	}
	r.Check(fetchSink != nil, rule, sk+"#enumerate-callback#fetches-each", p.Pos(enumSink.c.Pos()),
		"the enumeration callback fetches the ref it is given from the same wrapped store ("+metaStore+")",
		"the callback of the start-up enumeration of "+metaStore+" does not fetch the enumerated ref from that store: meta blobs are listed but never read")
	// process function, by role: the in-package function the scan hands the fetched bytes to
	// (fallback when the fetch is gone: the function that both decrypts and writes the index)
	var procCall *ssa.Call
	var processFn *ssa.Function
	for _, c := range CallsIn(scanFn, true) {
		callee := c.Callee()
		if callee == nil || !g.inPkg[callee] || callee.Parent() != nil || callee == decFn || callee == encFn || c.Value() == nil || fetchSink == nil {
			continue
		}
		rd := ResultValue(fetchSink.c.Value(), 0)
		for _, a := range c.Args() {
			if NamedOf(a.Type()) != g.storeType && g.flows(rd, a, c11FwdKinds) {
				procCall, processFn = c.Value(), callee
			}
		}
	}
	if processFn == nil {
		for _, c := range g.indexSets {
			top := TopFunc(c.Fn)
			for _, d := range CallsIn(top, true) {
				if d.Callee() == decFn {
					processFn = top
				}
			}
		}
		for _, c := range CallsIn(scanFn, true) {
			if processFn != nil && c.Callee() == processFn && c.Value() != nil {
				procCall = c.Value()
			}
		}
	}
	if processFn == nil {
		r.Violation(rule, sk+"#process-each", p.Pos(scanFn.Pos()), shortFn(scanFn)+" hands the fetched meta blobs to no function of the package, and no function both decrypts and writes the meta index: the index cannot be rebuilt from stored meta blobs")
		r.Floor(rule, 12)
		return
	}
	pk := FuncKey(processFn)
	if procCall == nil {
		r.Violation(rule, sk+"#process-each", p.Pos(scanFn.Pos()), shortFn(scanFn)+" does not call "+shortFn(processFn))
	} else {
		fed := false
		if fetchSink != nil {
			rd := ResultValue(fetchSink.c.Value(), 0)
			for _, a := range procCall.Call.Args[1:] {
				if g.flows(rd, a, c11FwdKinds) {
					fed = true
				}
			}
		}
		r.Check(fed, rule, sk+"#process-each", p.Pos(procCall.Pos()),
			"the bytes handed to "+shortFn(processFn)+" flow from the reader the wrapped store returned for the enumerated ref",
			"the bytes handed to "+shortFn(processFn)+" do not come from the fetch of the enumerated meta blob")
		leaks, why := c11FailureLeaks(procCall)
		if why != "" {
			r.Violation(rule, sk+"#process-failure-fails-scan", p.Pos(procCall.Pos()), "failure of "+shortFn(processFn)+" cannot fail the scan: "+why)
		} else {
			detail := ""
			if len(leaks) > 0 {
				detail = fmt.Sprintf("when %s fails, the return at line %d may still report success: a corrupt or undecryptable meta blob is skipped silently and the blobs it describes disappear", shortFn(processFn), p.Fset.Position(leaks[0].Exit.Pos()).Line)
			}
			r.Check(len(leaks) == 0, rule, sk+"#process-failure-fails-scan", p.Pos(procCall.Pos()),
				"every path after a failed "+shortFn(processFn)+" returns a non-nil error", detail)
		}
	}

	// (2c) process: success only after decrypt; index rows computed from the decrypted text; Set failure fails
	var decIn *ssa.Call
	for _, c := range CallsIn(processFn, false) {
		if c.Callee() == decFn && c.Value() != nil {
			decIn = c.Value()
		}
	}
	decPlainIdx := -1
	if out := ResultValue(g.decCalls[0].Value(), 0); out != nil {
		for i, prm := range decFn.Params {
			if c11Objecty(prm.Type()) && NamedOf(prm.Type()) != g.storeType && g.node(prm) != g.node(g.decCalls[0].Args()[0]) && g.flows(out, prm, c11AllKinds) {
				decPlainIdx = i
			}
		}
	}
	if decIn == nil || decPlainIdx < 0 {
		r.Undecided(rule, pk+"#shape", p.Pos(processFn.Pos()), "the decrypt helper is not called directly in "+shortFn(processFn))
	} else {
		for _, nr := range MaybeNilErrorReturns(processFn) {
			ok, why := SuccessDominates(decIn, c11LastInstr(nr.From))
			r.Check(ok, rule, pk+"#success-return#decrypt-ok", p.Pos(nr.Ret.Pos()),
				"dominated by the success edge of the decrypt helper",
				"a meta blob is accepted although decryption may have failed ("+why+")")
			// header constant
			hdr, okHdr := c11HeaderFact(g, nr.From, decIn.Call.Args[decPlainIdx])
			if !okHdr {
				r.Violation(rule, pk+"#success-return#header", p.Pos(nr.Ret.Pos()), "the success return is not guarded by a comparison of the first decrypted line with a constant header")
			} else {
				c11CheckWriters(p, r, g, rule, pk, hdr, encFn, encCipherIdx, metaStore)
			}
		}
		nSet := 0
		for _, c := range g.indexSets {
			if c.Value() == nil {
				continue
			}
			// the write is in the process function itself or in a helper it calls directly (bound 1)
			var via *ssa.Call
			if c.Fn != processFn {
				for _, h := range CallsIn(processFn, false) {
					if h.Callee() == c.Fn && c.Fn.Parent() == nil && h.Value() != nil {
						via = h.Value()
					}
				}
				if via == nil {
					continue
				}
			}
			nSet++
			args := c.Args()
			plain := decIn.Call.Args[decPlainIdx]
			r.Check(g.flows(plain, args[1], c11FwdKinds) && g.flows(plain, args[2], c11FwdKinds), rule, pk+"#index.Set#from-decrypted", p.Pos(c.Pos()),
				"key and value of the index row flow from the decrypted meta text",
				"the index row written at start-up is not computed from the decrypted meta blob")
			looped := inLoop(c.Block()) || via != nil && inLoop(via.Block())
			r.Check(looped, rule, pk+"#index.Set#per-line", p.Pos(c.Pos()),
				"the index write sits in the line loop", "the index write is not inside a loop: only one row per meta blob would be restored, packed meta blobs lose all others")
			leaks, why := c11FailureLeaks(c.Value())
			if why == "" && len(leaks) == 0 && via != nil {
				leaks, why = c11FailureLeaks(via)
			}
			if why != "" {
				r.Violation(rule, pk+"#index.Set#failure-fails", p.Pos(c.Pos()), "a failed index write cannot fail "+shortFn(processFn)+": "+why)
			} else {
				r.Check(len(leaks) == 0, rule, pk+"#index.Set#failure-fails", p.Pos(c.Pos()),
					"every path after a failed index write returns a non-nil error",
					"after a failed index write "+shortFn(processFn)+" may still return nil: the row is lost and the blob invisible until the next restart")
			}
		}
		if nSet == 0 {
			r.Violation(rule, pk+"#index.Set", p.Pos(processFn.Pos()), shortFn(processFn)+" no longer writes the index")
		}
	}
	r.Floor(rule, 14)
}

// uploadsTo lists the content values uploaded to the named wrapped store: the
// content argument of every sink on exactly that store, and, for a sink inside a
// forwarding helper whose store parameter may be several stores, the content
// argument at each caller that passes exactly that store (bound 1).
func (g *c11Flow) uploadsTo(store string) []ssa.Value {
	var out []ssa.Value
	for _, fn := range g.fns {
		for _, sk := range g.sinksIn(fn, false) {
			ca := g.contentArg(sk.c)
			if ca == nil {
				continue
			}
			if sk.store == store {
				out = append(out, ca)
				continue
			}
			if !strings.Contains("|"+sk.store+"|", "|"+store+"|") || fn.Parent() != nil {
				continue
			}
			wi, ci := -1, -1
			for _, a := range sk.c.Args() {
				if g.wrappedStore(g.node(a)) != "" {
					wi = g.paramIndexOfNode(fn, g.node(a))
				}
			}
			for root := range c11BufferRoots(ca) {
				if prm, ok := root.(*ssa.Parameter); ok {
					ci = g.paramIndexOfNode(fn, g.node(prm))
				}
			}
			if wi < 0 || ci < 0 {
				out = append(out, ca) // cannot separate: treat as an upload to this store
				continue
			}
			for _, f := range g.fns {
				for _, c := range CallsIn(f, false) {
					if c.Callee() == fn && g.wrappedStore(g.node(c.Args()[wi])) == store {
						out = append(out, c.Args()[ci])
					}
				}
			}
		}
	}
	return out
}

// c11HeaderFact finds, among the facts at block b, a comparison of a string
// flowing from the decrypted buffer with a constant that is known equal.
func c11HeaderFact(g *c11Flow, b *ssa.BasicBlock, plainBuf ssa.Value) (string, bool) {
	for _, f := range FactsAt(b) {
		bo, ok := f.Cond.(*ssa.BinOp)
		if !ok || (bo.Op != token.EQL && bo.Op != token.NEQ) {
			continue
		}
		if (bo.Op == token.EQL) != f.Val {
			continue
		}
		for _, pair := range [][2]ssa.Value{{bo.X, bo.Y}, {bo.Y, bo.X}} {
			if s, ok := ConstString(pair[1]); ok && s != "" && g.flows(plainBuf, pair[0], c11FwdKinds) {
				return s, true
			}
		}
	}
	return "", false
}

// c11CheckWriters: every encrypt-helper call whose ciphertext ends up in the
// meta store writes a constant starting with the header the parser accepts.
func c11CheckWriters(p *Program, r *Reporter, g *c11Flow, rule, pk, hdr string, encFn *ssa.Function, encCipherIdx int, metaStore string) {
	// content arguments of uploads to the meta store
	metaContents := g.uploadsTo(metaStore)
	n := 0
	for _, fn := range g.fns {
		for _, c := range CallsIn(fn, false) {
			if c.Callee() != encFn || c.Value() == nil || encCipherIdx < 0 {
				continue
			}
			args := c.Value().Call.Args
			toMeta := false
			for _, mc := range metaContents {
				if g.flows(args[encCipherIdx], mc, c11FwdKinds) {
					toMeta = true
				}
			}
			if !toMeta {
				continue
			}
			n++
			// constants flowing into the plaintext buffer(s) of this call
			var consts []string
			for i, a := range args {
				if i == encCipherIdx || !c11Objecty(a.Type()) || NamedOf(a.Type()) == g.storeType {
					continue
				}
				consts = append(consts, c11ConstsWritten(g, fn, a)...)
			}
			ok := false
			for _, k := range consts {
				if strings.HasPrefix(k, hdr) {
					ok = true
				}
			}
			r.Check(ok, rule, FuncKey(fn)+"#meta-writer#header", p.Pos(c.Pos()),
				fmt.Sprintf("the plaintext encrypted for the meta store starts from a constant with the header %q that %s requires", hdr, strings.TrimPrefix(pk, c11Rel+".")),
				fmt.Sprintf("none of the constants written to the meta plaintext (%q) starts with the header %q that the start-up parser requires: meta blobs written here are rejected at the next start", consts, hdr))
		}
	}
	if n == 0 {
		r.Violation(rule, pk+"#meta-writers", "?", "no encrypt-helper call produces content for the meta store")
	}
}

// c11ConstsWritten lists the string constants that are written into buffer buf
// in fn: constant arguments of calls taking buf, and constant (format) strings
// in the backward slice of the value buf was built from.
func c11ConstsWritten(g *c11Flow, fn *ssa.Function, buf ssa.Value) []string {
	var out []string
	bn := g.node(buf)
	for _, c := range CallsIn(fn, false) {
		args := c.Args()
		uses := false
		for _, a := range args {
			if g.node(a) == bn && bn != nil {
				uses = true
			}
		}
		if !uses {
			continue
		}
		for _, a := range args {
			if s, ok := ConstString(a); ok {
				out = append(out, s)
			}
		}
	}
	DependsOn(buf, func(v ssa.Value) bool {
		if s, ok := ConstString(v); ok {
			out = append(out, s)
		}
		return false
	})
	return out
}

// ---------------------------------------------------------------------------
// X-index — the local index never knows more than the meta store durably records
//
// Every write of a row into the meta index (sorted.KeyValue.Set anywhere in the
// package: who-may-write) is an "index write event". An event is accepted in
// exactly two forms:
//
//	replayed  the row is computed only from the plaintext buffer of a decrypt-helper
//	          call whose ciphertext is (only) bytes the meta store returned for a
//	          fetch (the restart path);
//	durable   the event is dominated by the success edge of an upload into the meta
//	          store whose content is ciphertext of a plaintext that the row's refs
//	          flow into, and that upload is dominated by the success edge of the
//	          upload, into the blobs store, of the ciphertext the row's value names.
//
// An event that cannot be accepted where it stands (the write sits in a helper or
// a function literal) is lifted to every call site of that helper / literal
// (bounded), with the row translated through the parameters; a deferred literal
// is judged at every run-defers point it can reach, a go statement at the
// statement itself (what it starts happens after it).

type c11Roles struct {
	encFn, decFn                                         *ssa.Function
	encCipherIdx, encPlainIdx, decCipherIdx, decPlainIdx int
}

func (g *c11Flow) roles() (c11Roles, bool) {
	ro := c11Roles{encCipherIdx: -1, encPlainIdx: -1, decCipherIdx: -1, decPlainIdx: -1}
	if len(g.encCalls) != 1 || len(g.decCalls) != 1 {
		return ro, false
	}
	encCall, decCall := g.encCalls[0], g.decCalls[0]
	ro.encFn, ro.decFn = encCall.Fn, decCall.Fn
	if ro.encFn.Parent() != nil || ro.decFn.Parent() != nil {
		return ro, false
	}
	ro.encCipherIdx = g.paramIndexOfNode(ro.encFn, g.node(encCall.Args()[0]))
	ro.decCipherIdx = g.paramIndexOfNode(ro.decFn, g.node(decCall.Args()[0]))
	for i, prm := range ro.encFn.Params {
		if i != ro.encCipherIdx && c11Objecty(prm.Type()) && NamedOf(prm.Type()) != g.storeType {
			ro.encPlainIdx = i
		}
	}
	if out := ResultValue(decCall.Value(), 0); out != nil {
		for i, prm := range ro.decFn.Params {
			if i != ro.decCipherIdx && c11Objecty(prm.Type()) && NamedOf(prm.Type()) != g.storeType && g.flows(out, prm, c11AllKinds) {
				ro.decPlainIdx = i
			}
		}
	}
	return ro, ro.encCipherIdx >= 0 && ro.encPlainIdx >= 0 && ro.decCipherIdx >= 0 && ro.decPlainIdx >= 0
}

// c11Back is a backward slice of a set of values along SSA operands: through
// loads to the stores of the variable (also stores into elements/fields of a
// local array or struct), through calls to all their arguments (receiver
// included) and through captured variables to their binding. With stopAtRefs the
// walk stops at the first blob.Ref-typed value on each path (refs). Values with
// nothing behind them are leaves (parameters, argument-less calls, globals).
type c11Back struct {
	refNamed *types.Named
	stopRefs bool
	stop     func(ssa.Value) bool // extra stop set: matched values are recorded as leaves
	seen     map[ssa.Value]bool
	refs     []ssa.Value
	leaves   []ssa.Value
}

func (w *c11Back) addRef(v ssa.Value) {
	v = originValue(v)
	for _, r := range w.refs {
		if r == v {
			return
		}
	}
	w.refs = append(w.refs, v)
}

func (w *c11Back) addLeaf(v ssa.Value) {
	for _, r := range w.leaves {
		if r == v {
			return
		}
	}
	w.leaves = append(w.leaves, v)
}

func (w *c11Back) isRef(t types.Type) bool {
	n, ok := t.(*types.Named)
	return ok && n == w.refNamed
}

func (w *c11Back) walk(v ssa.Value, depth int) {
	if v == nil || w.seen[v] {
		return
	}
	w.seen[v] = true
	if depth > 80 {
		w.addLeaf(v)
		return
	}
	switch v.(type) {
	case *ssa.Const, *ssa.Function, *ssa.Builtin:
		return
	}
	if w.stop != nil && w.stop(v) {
		w.addLeaf(v)
		return
	}
	if w.stopRefs && w.isRef(v.Type()) {
		// a load of a variable: look at what was stored (the stored values are refs too)
		if o := originValue(v); o != v {
			w.walk(o, depth+1)
			return
		}
		if ld, ok := v.(*ssa.UnOp); ok && ld.Op == token.MUL {
			if cell, ok := varOf(ld.X); ok {
				if sts := storesTo(cell); len(sts) > 0 {
					for _, st := range sts {
						w.walk(st.Val, depth+1)
					}
					return
				}
			}
		}
		if ph, ok := v.(*ssa.Phi); ok {
			for _, e := range ph.Edges {
				w.walk(e, depth+1)
			}
			return
		}
		w.addRef(v)
		return
	}
	switch x := v.(type) {
	case *ssa.Parameter, *ssa.Global:
		w.addLeaf(v)
	case *ssa.FreeVar:
		if b := bindingOf(x); b != nil {
			w.walk(b, depth+1)
		} else {
			w.addLeaf(v)
		}
	case *ssa.Alloc:
		n := 0
		for _, in := range c11WritesInto(x) {
			switch y := in.(type) {
			case *ssa.Store:
				n++
				w.walk(y.Val, depth+1)
			case ssa.CallInstruction:
				n++
				for _, a := range (CallSite{x.Parent(), y}).Args() {
					w.walk(a, depth+1)
				}
			}
		}
		_ = n // an alloc nobody writes holds the zero value: nothing behind it
	case *ssa.UnOp:
		if x.Op == token.MUL {
			if cell, ok := varOf(x.X); ok {
				if al, isAlloc := cell.(*ssa.Alloc); isAlloc {
					w.walk(al, depth+1)
					return
				}
			}
		}
		w.walk(x.X, depth+1)
	case *ssa.Call:
		n := 0
		for _, a := range (CallSite{x.Parent(), x}).Args() {
			switch a.(type) {
			case *ssa.Const, *ssa.Function, *ssa.Builtin:
				continue
			}
			n++
			w.walk(a, depth+1)
		}
		if !x.Call.IsInvoke() {
			if _, static := x.Call.Value.(*ssa.Function); !static {
				if _, bi := x.Call.Value.(*ssa.Builtin); !bi {
					n++
					w.walk(x.Call.Value, depth+1)
				}
			}
		}
		if n == 0 {
			w.addLeaf(v)
		}
	default:
		in, ok := v.(ssa.Instruction)
		if !ok {
			w.addLeaf(v)
			return
		}
		n := 0
		for _, op := range in.Operands(nil) {
			if *op != nil {
				n++
				w.walk(*op, depth+1)
			}
		}
		if n == 0 {
			w.addLeaf(v)
		}
	}
}

// c11WritesInto lists the instructions that write into the local variable al:
// stores to it or to an element/field address derived from it, and calls that
// are handed it (or such an address, or a slice of it).
func c11WritesInto(al *ssa.Alloc) []ssa.Instruction {
	var out []ssa.Instruction
	seen := map[ssa.Value]bool{}
	var visit func(addr ssa.Value, depth int)
	visit = func(addr ssa.Value, depth int) {
		if seen[addr] || depth > 8 {
			return
		}
		seen[addr] = true
		refs := addr.Referrers()
		if refs == nil {
			return
		}
		for _, r := range *refs {
			switch x := r.(type) {
			case *ssa.Store:
				if x.Addr == addr {
					out = append(out, x)
				}
			case *ssa.IndexAddr:
				if x.X == addr {
					visit(x, depth+1)
				}
			case *ssa.FieldAddr:
				if x.X == addr {
					visit(x, depth+1)
				}
			case *ssa.MakeClosure:
				if fn, ok := x.Fn.(*ssa.Function); ok {
					for i, b := range x.Bindings {
						if b == addr && i < len(fn.FreeVars) {
							visit(fn.FreeVars[i], depth+1)
						}
					}
				}
			case ssa.CallInstruction:
				if _, isPtrToBasic := al.Type().(*types.Pointer).Elem().Underlying().(*types.Array); !isPtrToBasic {
					out = append(out, x)
				}
			}
		}
	}
	visit(al, 0)
	return out
}

// c11Upload is an upload of content into one wrapped store, as seen from the
// function that contains call: a direct sink, or a call of a package helper
// that contains the sink and reports its failure.
type c11Upload struct {
	call    *ssa.Call
	content ssa.Value // in terms of call's function when known, else the sink's own argument
	ref     ssa.Value
	what    string
}

func (g *c11Flow) uploadEvents(p *Program, fn *ssa.Function, store string) []c11Upload {
	var out []c11Upload
	for _, sk := range g.sinksIn(fn, false) {
		ca := g.contentArg(sk.c)
		if ca == nil || sk.c.Value() == nil || sk.store != store {
			continue
		}
		out = append(out, c11Upload{sk.c.Value(), ca, g.refArg(p, sk.c), c11CalleeName(sk.c)})
	}
	for _, c := range CallsIn(fn, false) {
		h := c.Callee()
		if h == nil || !g.inPkg[h] || h.Parent() != nil || h == fn || c.Value() == nil || len(c.Args()) != len(h.Params) {
			continue
		}
		for _, sk := range g.sinksIn(h, false) {
			ca := g.contentArg(sk.c)
			if ca == nil || sk.c.Value() == nil {
				continue
			}
			st := sk.store
			for _, a := range sk.c.Args() {
				if g.wrappedStore(g.node(a)) != "" {
					if wi := g.paramIndexOfNode(h, g.node(a)); wi >= 0 {
						st = g.wrappedStore(g.node(c.Args()[wi]))
					}
				}
			}
			if st != store || !c11ReportsFailure(h, sk.c.Value()) {
				continue
			}
			up := c11Upload{call: c.Value(), content: ca, ref: g.refArg(p, sk.c), what: shortFn(h) + " (" + c11CalleeName(sk.c) + ")"}
			for root := range c11BufferRoots(ca) {
				if prm, ok := root.(*ssa.Parameter); ok {
					if ci := g.paramIndexOfNode(h, g.node(prm)); ci >= 0 {
						up.content = c.Args()[ci]
					}
				}
			}
			if up.ref != nil {
				if prm, ok := originValue(up.ref).(*ssa.Parameter); ok {
					for ri, hp := range h.Params {
						if hp == prm {
							up.ref = c.Args()[ri]
						}
					}
				}
			}
			out = append(out, up)
		}
	}
	return out
}

// c11ReportsFailure: every return of h whose error may be nil either returns the
// error of call itself or is on call's success edge.
func c11ReportsFailure(h *ssa.Function, call *ssa.Call) bool {
	ev, hasErr, discarded := ErrValue(call)
	if !hasErr || discarded || ErrResultIndex(h) < 0 {
		return false
	}
	for _, nr := range MaybeNilErrorReturns(h) {
		if sameOrigin(nr.Val, ev) {
			continue
		}
		if ok, _ := SuccessDominates(call, c11LastInstr(nr.From)); !ok {
			return false
		}
	}
	return true
}

// c11IndexEvent is one index write as seen from function fn.
type c11IndexEvent struct {
	fn       *ssa.Function
	at       []ssa.Instruction // every one of these points must be covered
	deferred bool
	key, val []ssa.Value
	via      string
}

type c11IndexCtx struct {
	p         *Program
	r         *Reporter
	g         *c11Flow
	ro        c11Roles
	metaStore string
	blobStore string
	refNamed  *types.Named
	readers   []ssa.Value // readers returned by fetches from the meta store
}

func (cx *c11IndexCtx) back(vals []ssa.Value, stopRefs bool, stop func(ssa.Value) bool) *c11Back {
	w := &c11Back{refNamed: cx.refNamed, stopRefs: stopRefs, stop: stop, seen: map[ssa.Value]bool{}}
	for _, v := range vals {
		w.walk(v, 0)
	}
	return w
}

// inPkgCallers lists the call sites of fn in the package; closed=false when fn
// may also be entered from elsewhere (exported API method, used as a value,
// reachable through an interface, handed to a callee as a callback).
func (cx *c11IndexCtx) inPkgCallers(fn *ssa.Function) (sites []CallSite, closed bool) {
	g := cx.g
	closed = true
	if fn.Parent() == nil {
		if fn.Signature.Recv() != nil && token.IsExported(fn.Name()) {
			closed = false
		}
		if fn.Signature.Recv() == nil && token.IsExported(fn.Name()) {
			closed = false
		}
		if len(cx.p.FuncValueUses(fn)) > 0 || len(cx.p.InvokeSites(fn)) > 0 {
			closed = false
		}
	}
	for _, f := range g.fns {
		for _, c := range CallsIn(f, false) {
			if c.Callee() == fn && len(c.Args()) == len(fn.Params) {
				sites = append(sites, c)
				continue
			}
			for _, lit := range FuncArgClosures(c) {
				if lit == fn {
					closed = false
				}
			}
		}
	}
	if fn.Parent() != nil {
		// every use of the closure value must be one of the call sites found
		for _, b := range fn.Parent().Blocks {
			for _, in := range b.Instrs {
				mc, ok := in.(*ssa.MakeClosure)
				if !ok || mc.Fn != ssa.Value(fn) {
					continue
				}
				if refs := mc.Referrers(); refs != nil {
					for _, rf := range *refs {
						switch x := rf.(type) {
						case *ssa.DebugRef, *ssa.Store:
						case ssa.CallInstruction:
							if x.Common().Value != ssa.Value(mc) {
								closed = false
							}
						default:
							closed = false
						}
					}
				}
			}
		}
	}
	return sites, closed
}

// pointsOf: the program points at which the effect of call site c takes place.
func c11PointsOf(c CallSite) (pts []ssa.Instruction, deferred bool) {
	if !c.IsDefer() {
		return []ssa.Instruction{c.Instr}, false
	}
	for in := range ReachableFrom(c.Instr, nil) {
		if _, ok := in.(*ssa.RunDefers); ok {
			pts = append(pts, in)
		}
	}
	sort.Slice(pts, func(i, j int) bool { return pts[i].Block().Index < pts[j].Block().Index })
	return pts, true
}

// replayed: the row is computed only from the plaintext of a decrypt-helper call in
// ev.fn. Returns that call.
func (cx *c11IndexCtx) replayed(ev c11IndexEvent) *ssa.Call {
	for _, c := range CallsIn(ev.fn, false) {
		if c.Callee() != cx.ro.decFn || c.Value() == nil {
			continue
		}
		plain := c.Value().Call.Args[cx.ro.decPlainIdx]
		w := cx.back(append(append([]ssa.Value{}, ev.key...), ev.val...), false, func(v ssa.Value) bool { return sameOrigin(v, plain) })
		if len(w.leaves) == 0 {
			continue
		}
		only := true
		for _, l := range w.leaves {
			if !sameOrigin(l, plain) {
				only = false
			}
		}
		if only {
			return c.Value()
		}
	}
	return nil
}

// fedFromMeta: v (in some function of the package) carries bytes read from a
// reader the meta store returned.
func (cx *c11IndexCtx) fedFromMeta(v ssa.Value) bool {
	for _, rd := range cx.readers {
		if cx.g.flows(rd, v, c11FwdKinds) {
			return true
		}
	}
	return false
}

// durable tries to accept ev as "durably recorded first". On failure it returns
// the most specific reason.
func (cx *c11IndexCtx) durable(ev c11IndexEvent) (ok bool, detail, why string) {
	g := cx.g
	ups := g.uploadEvents(cx.p, ev.fn, cx.metaStore)
	if len(ups) == 0 {
		return false, "", "no upload into the meta store (" + cx.metaStore + ") in " + shortFn(ev.fn)
	}
	why = "no upload into the meta store dominates the index write"
	rank := 0
	fail := func(n int, s string) {
		if n > rank {
			rank, why = n, s
		}
	}
	keyRefs := cx.back(ev.key, true, nil).refs
	valRefs := cx.back(ev.val, true, nil).refs
	for _, up := range ups {
		dominated := true
		reason := ""
		for _, at := range ev.at {
			if ok, w := SuccessDominates(up.call, at); !ok {
				dominated, reason = false, w
			}
		}
		if !dominated {
			if ev.deferred {
				reason += "; the write is deferred and also runs on exits taken before or on the failure of the upload"
			}
			fail(1, "the index write is not on the success edge of the upload into the meta store by "+up.what+" ("+reason+")")
			continue
		}
		// the uploaded content is ciphertext of a plaintext the row's refs flow into
		var encs []*ssa.Call
		for _, f := range g.fns {
			for _, c := range CallsIn(f, false) {
				if c.Callee() == cx.ro.encFn && c.Value() != nil && g.flows(c.Value().Call.Args[cx.ro.encCipherIdx], up.content, c11FwdKinds) {
					encs = append(encs, c.Value())
				}
			}
		}
		if len(encs) == 0 {
			fail(2, "the content uploaded into the meta store by "+up.what+" is not the output of the encrypt helper")
			continue
		}
		if len(keyRefs) == 0 || len(valRefs) == 0 {
			fail(2, "cannot identify the plaintext ref / encrypted ref the index row is computed from")
			continue
		}
		var covered func(r ssa.Value, depth int) bool
		covered = func(r ssa.Value, depth int) bool {
			for _, e := range encs {
				if g.flows(r, e.Call.Args[cx.ro.encPlainIdx], c11AllKinds) {
					return true
				}
			}
			// a ref that is itself taken from something computed from other refs (the ref a store call returned)
			in, isInstr := r.(ssa.Instruction)
			if !isInstr || depth > 3 {
				return false
			}
			var ops []ssa.Value
			for _, op := range in.Operands(nil) {
				if *op != nil {
					ops = append(ops, *op)
				}
			}
			behind := cx.back(ops, true, nil).refs
			if len(behind) == 0 {
				return false
			}
			for _, b := range behind {
				if b == r || !covered(b, depth+1) {
					return false
				}
			}
			return true
		}
		missing := ""
		for _, r := range append(append([]ssa.Value{}, keyRefs...), valRefs...) {
			if !covered(r, 0) {
				missing = g.nodeName(g.node(r))
			}
		}
		if missing != "" {
			fail(3, "the meta blob uploaded by "+up.what+" is not computed from the ref the index row is made of ("+missing+"): the durable row and the index row differ")
			continue
		}
		// the ciphertext the row names was stored before the meta blob that names it
		okBlob, whyBlob := cx.ciphertextFirst(ev.fn, up.call, valRefs, 0)
		if !okBlob {
			fail(4, "ciphertext-first: "+whyBlob)
			continue
		}
		return true, "on the success edge of the upload into " + cx.metaStore + " by " + up.what + ", whose content is ciphertext of a plaintext the row's refs flow into; " + whyBlob, ""
	}
	return false, "", why
}

// ciphertextFirst: point `at` in fn is on the success edge of an upload into the
// blobs store stored under (one of) encRefs.
func (cx *c11IndexCtx) ciphertextFirst(fn *ssa.Function, at ssa.Instruction, encRefs []ssa.Value, depth int) (bool, string) {
	g := cx.g
	matches := func(up c11Upload, r ssa.Value) bool {
		if up.ref != nil && sameOrigin(up.ref, r) {
			return true
		}
		// the ref the store call itself reported (encSB.Ref)
		w := cx.back([]ssa.Value{r}, false, func(v ssa.Value) bool { return v == ssa.Value(up.call) })
		for _, l := range w.leaves {
			if l == ssa.Value(up.call) {
				return true
			}
		}
		return false
	}
	why := "no upload into the blobs store (" + cx.blobStore + ") under the encrypted ref of the row in " + shortFn(fn)
	for _, up := range g.uploadEvents(cx.p, fn, cx.blobStore) {
		for _, r := range encRefs {
			if !matches(up, r) {
				continue
			}
			if ok, w := SuccessDominates(up.call, at); ok {
				return true, "that upload is on the success edge of the upload of the named ciphertext into " + cx.blobStore + " by " + up.what
			} else {
				why = "the meta blob is uploaded although the upload of the ciphertext it names into " + cx.blobStore + " has not succeeded (" + w + ")"
			}
		}
	}
	// the encrypted ref is a parameter: the ciphertext is stored by the callers
	if depth < 2 {
		for _, r := range encRefs {
			prm, ok := originValue(r).(*ssa.Parameter)
			if !ok || prm.Parent() != fn {
				continue
			}
			idx := -1
			for i, q := range fn.Params {
				if q == prm {
					idx = i
				}
			}
			sites, closed := cx.inPkgCallers(fn)
			if !closed || len(sites) == 0 || idx < 0 {
				continue
			}
			all := true
			detail := ""
			for _, cs := range sites {
				if cs.IsDefer() || cs.IsGo() {
					all = false
					continue
				}
				refs := cx.back([]ssa.Value{cs.Args()[idx]}, true, nil).refs
				ok, w := cx.ciphertextFirst(cs.Fn, cs.Instr, refs, depth+1)
				if !ok {
					all, why = false, w
				}
				detail = w
			}
			if all {
				return true, detail + " (at the callers of " + shortFn(fn) + ")"
			}
		}
	}
	return false, why
}

// judge accepts or lifts one event. It returns ok, the accepted form and the
// reason of the failure.
func (cx *c11IndexCtx) judge(ev c11IndexEvent, depth int) (ok bool, form, why string) {
	if len(ev.at) == 0 {
		return false, "", "the deferred index write reaches no run-defers point"
	}
	if !ev.deferred {
		if dec := cx.replayed(ev); dec != nil {
			return cx.replaySource(ev, dec, depth)
		}
	}
	okD, detail, whyD := cx.durable(ev)
	if okD {
		return true, "durable-first" + ev.via + ": " + detail, ""
	}
	// lift
	sites, closed := cx.inPkgCallers(ev.fn)
	if depth >= 3 || !closed || len(sites) == 0 {
		if !closed {
			whyD += "; " + shortFn(ev.fn) + " can be entered from outside the package or as a callback, so its callers cannot vouch for it"
		}
		return false, "", whyD
	}
	forms := map[string]bool{}
	for _, cs := range sites {
		pts, deferred := c11PointsOf(cs)
		lifted := c11IndexEvent{fn: cs.Fn, at: pts, deferred: deferred || ev.deferred,
			key: cx.translate(ev.fn, cs, ev.key), val: cx.translate(ev.fn, cs, ev.val),
			via: ev.via + " via " + shortFn(ev.fn)}
		ok, f, w := cx.judge(lifted, depth+1)
		if !ok {
			return false, "", w
		}
		forms[f] = true
	}
	var fs []string
	for f := range forms {
		fs = append(fs, f)
	}
	sort.Strings(fs)
	return true, strings.Join(fs, " | "), ""
}

// translate rewrites the parameters of callee in the backward slice of vals to
// the arguments of call site cs; values that are not computed from parameters
// (captured variables of a literal) stay as they are.
func (cx *c11IndexCtx) translate(callee *ssa.Function, cs CallSite, vals []ssa.Value) []ssa.Value {
	w := cx.back(vals, true, func(v ssa.Value) bool {
		prm, ok := v.(*ssa.Parameter)
		return ok && prm.Parent() == callee
	})
	var out []ssa.Value
	add := func(v ssa.Value) {
		if prm, ok := v.(*ssa.Parameter); ok && prm.Parent() == callee {
			for i, q := range callee.Params {
				if q == prm && i < len(cs.Args()) {
					out = append(out, cs.Args()[i])
				}
			}
			return
		}
		out = append(out, v)
	}
	for _, v := range w.refs {
		add(v)
	}
	for _, v := range w.leaves {
		add(v)
	}
	return out
}

// replaySource: the ciphertext handed to the decrypt call dec consists only of
// bytes fetched from the meta store: directly, or through parameters of ev.fn that
// every caller feeds from such a fetch (a caller that does not is itself judged as
// an index write event at its call site).
func (cx *c11IndexCtx) replaySource(ev c11IndexEvent, dec *ssa.Call, depth int) (bool, string, string) {
	cipher := dec.Call.Args[cx.ro.decCipherIdx]
	w := cx.back([]ssa.Value{cipher}, false, func(v ssa.Value) bool {
		if _, isPrm := v.(*ssa.Parameter); isPrm {
			return true
		}
		for _, rd := range cx.readers {
			if sameOrigin(v, rd) {
				return true
			}
		}
		return false
	})
	form := "replayed-from-meta" + ev.via + ": the row is computed only from the plaintext of " + shortFn(cx.ro.decFn) + " in " + shortFn(ev.fn)
	var prms []*ssa.Parameter
	for _, l := range w.leaves {
		isReader := false
		for _, rd := range cx.readers {
			if sameOrigin(l, rd) {
				isReader = true
			}
		}
		if isReader {
			continue
		}
		prm, ok := l.(*ssa.Parameter)
		if !ok || prm.Parent() != ev.fn {
			return false, "", "the ciphertext decrypted in " + shortFn(ev.fn) + " is computed from " + cx.g.nodeName(l) + ", which is neither a fetch from the meta store nor a parameter"
		}
		prms = append(prms, prm)
	}
	if len(w.leaves) == 0 {
		return false, "", "cannot find where the ciphertext decrypted in " + shortFn(ev.fn) + " comes from"
	}
	if len(prms) == 0 {
		return true, form + ", whose ciphertext is read from a fetch from " + cx.metaStore, ""
	}
	sites, closed := cx.inPkgCallers(ev.fn)
	if !closed || len(sites) == 0 {
		return false, "", shortFn(ev.fn) + " decrypts its parameter and writes the index, but can be entered from outside the package (or has no caller): nothing shows the bytes come from the meta store"
	}
	var fed []string
	for _, cs := range sites {
		okAll := true
		for _, prm := range prms {
			for i, q := range ev.fn.Params {
				if q == prm && !cx.fedFromMeta(cs.Args()[i]) {
					okAll = false
				}
			}
		}
		ck := FuncKey(ev.fn) + "#index-writer-fed-from-meta#caller:" + shortFn(cs.Fn)
		if okAll {
			cx.r.OK("X-index", ck, cx.p.Pos(cs.Pos()), "the bytes this caller hands to "+shortFn(ev.fn)+" flow from a reader the meta store ("+cx.metaStore+") returned for a fetch")
			fed = append(fed, shortFn(cs.Fn))
			continue
		}
		// not a replay: the call is an index write event of the caller
		if depth < 3 {
			pts, deferred := c11PointsOf(cs)
			var row []ssa.Value
			for _, prm := range prms {
				for i, q := range ev.fn.Params {
					if q == prm {
						row = append(row, cs.Args()[i])
					}
				}
			}
			lifted := c11IndexEvent{fn: cs.Fn, at: pts, deferred: deferred, key: row, val: row, via: " via " + shortFn(ev.fn)}
			if okD, detail, _ := cx.durable(lifted); okD {
				cx.r.OK("X-index", ck, cx.p.Pos(cs.Pos()), "the bytes this caller replays were durably recorded first: "+detail)
				continue
			}
		}
		cx.r.Violation("X-index", ck, cx.p.Pos(cs.Pos()), shortFn(cs.Fn)+" feeds "+shortFn(ev.fn)+" (which writes index rows from what it decrypts) with bytes that were neither fetched from the meta store nor successfully uploaded to it before: the index learns rows the meta store does not hold; after the index is lost they cannot be recovered")
	}
	return true, form + ", whose ciphertext parameter every caller (" + strings.Join(fed, ", ") + ") feeds from a fetch from " + cx.metaStore, ""
}

func c11RuleIndex(p *Program, r *Reporter, g *c11Flow) {
	const rule = "X-index"
	defer r.Floor(rule, 4)
	ro, ok := g.roles()
	if !ok {
		r.Undecided(rule, c11Rel+"#crypto-helper-roles", "?", "cannot identify the encrypt/decrypt helpers and their buffer parameters by role")
		return
	}
	cx := &c11IndexCtx{p: p, r: r, g: g, ro: ro, refNamed: p.NamedType("pkg/blob", "Ref")}

	// roles of the two wrapped stores: the meta store is the one the start-up scan
	// enumerates with a callback, the blobs store the one Fetch reads
	for _, fn := range g.fns {
		if fn.Parent() != nil {
			continue
		}
		for _, s := range g.sinksIn(fn, true) {
			if len(FuncArgClosures(s.c)) > 0 && !strings.Contains(s.store, "|") {
				if cx.metaStore != "" && cx.metaStore != s.store {
					r.Undecided(rule, c11Rel+"#store-roles", p.Pos(s.c.Pos()), "two different wrapped stores are enumerated with a callback: cannot tell the meta store")
					return
				}
				cx.metaStore = s.store
			}
		}
	}
	fetchIface := p.Iface("pkg/blob", "Fetcher")
	if fetchFn, _ := p.MethodOf(g.storeType, fetchIface.Method(0).Name()); fetchFn != nil {
		for _, s := range g.sinksIn(fetchFn, false) {
			if v := s.c.Value(); v != nil {
				if out := ResultValue(v, 0); out != nil && c11Implements(out.Type(), g.readerIface) && !strings.Contains(s.store, "|") {
					cx.blobStore = s.store
				}
			}
		}
	}
	if cx.metaStore == "" || cx.blobStore == "" || cx.metaStore == cx.blobStore {
		r.Undecided(rule, c11Rel+"#store-roles", "?", fmt.Sprintf("cannot tell the meta store (enumerated at start-up: %q) from the blobs store (read by Fetch: %q)", cx.metaStore, cx.blobStore))
		return
	}
	for _, fn := range g.fns {
		for _, s := range g.sinksIn(fn, false) {
			if s.store != cx.metaStore || s.c.Value() == nil {
				continue
			}
			if out := ResultValue(s.c.Value(), 0); out != nil && c11Implements(out.Type(), g.readerIface) {
				cx.readers = append(cx.readers, out)
			}
		}
	}

	// (a) the index handle is confined: only method calls on it
	var idxLoc *c11Loc
	st := g.storeType.Underlying().(*types.Struct)
	for i := 0; i < st.NumFields(); i++ {
		if c11Implements(st.Field(i).Type(), g.kvIface) {
			if idxLoc != nil {
				r.Undecided(rule, c11Rel+"#index-field", "?", "the storage type has more than one sorted.KeyValue field")
				return
			}
			idxLoc = &c11Loc{g.storeType, i}
		}
	}
	if idxLoc == nil {
		brokenf("anchor unresolved: %s has no sorted.KeyValue field (the meta index)", g.storeType.Obj().Name())
	}
	idxReach := g.reach([]c11Source{{*idxLoc, "index field"}}, map[c11EdgeKind]bool{c11Copy: true})
	escapes := 0
	for _, c := range g.extCalls {
		isKV := false
		if rt := c.RecvType(); rt != nil && c11Implements(rt, g.kvIface) {
			isKV = true
		}
		for i, a := range c.Args() {
			if i == 0 && isKV {
				continue // the receiver of a sorted.KeyValue method: an index operation, enumerated below
			}
			if _, isIdx := idxReach[g.node(a)]; isIdx && g.node(a) != nil {
				escapes++
				r.Undecided(rule, FuncKey(c.Fn)+"#index-escapes#"+c11CalleeName(c), p.Pos(c.Pos()), "the meta index is handed to "+c.CalleeKey()+": rows it writes there are not seen by the who-may-write enumeration")
			}
		}
	}
	if escapes == 0 {
		r.OKTable(rule, c11Rel+"#index-handle-confined", "?", "the meta index (field "+st.Field(idxLoc.F).Name()+") is only ever the receiver of sorted.KeyValue method calls inside the package")
	}

	// (b) who may write: every Set
	perFn := map[*ssa.Function]int{}
	for _, c := range g.indexSets {
		args := c.Args()
		if len(args) < 3 {
			continue
		}
		perFn[c.Fn]++
		construct := FuncKey(c.Fn) + "#index.Set"
		if perFn[c.Fn] > 1 {
			construct += fmt.Sprintf("[%d]", perFn[c.Fn])
		}
		construct += "#backed-by-meta"
		pts := []ssa.Instruction{c.Instr}
		deferred := false
		if c.IsDefer() {
			pts, deferred = c11PointsOf(c)
		}
		ev := c11IndexEvent{fn: c.Fn, at: pts, deferred: deferred, key: []ssa.Value{args[1]}, val: []ssa.Value{args[2]}}
		ok, form, why := cx.judge(ev, 0)
		if ok {
			r.OK(rule, construct, p.Pos(c.Pos()), form)
			continue
		}
		r.Violation(rule, construct, p.Pos(c.Pos()), "this write puts a row into the local meta index that the meta store is not known to hold: "+why+". If the meta blob is missing (failed or never attempted upload, crash in between) the blob is acknowledged as a duplicate on retry, stat'ed and enumerated, yet after the index is lost the start-up scan of the meta store cannot recover it")
	}
	if len(g.indexSets) == 0 {
		r.Violation(rule, c11Rel+"#index.Set", "?", "no function of the package writes the meta index any more")
	}
}

// c11CompactCoverage: what compaction deletes is what it packed. Inside the
// compaction function the removed refs are one parameter (D) and the plaintext of
// the packed blob is fed from another parameter (P) of ref-slice type; at every
// call site the two arguments are lock-step accumulators: built by appending, in
// the same block, field f1 (a ref slice) and field f2 (a ref) of the SAME record to
// the two lists, reset together, merged by phis edge by edge. Then D lists exactly
// the records whose lines are in P.
func c11CompactCoverage(p *Program, r *Reporter, g *c11Flow, fn *ssa.Function, rm c11Sink, enc *ssa.Call) {
	const rule = "X-compact"
	fk := FuncKey(fn)
	site := p.Pos(rm.c.Pos())
	refNamed := p.NamedType("pkg/blob", "Ref")
	isRefSlice := func(t types.Type) bool {
		sl, ok := t.Underlying().(*types.Slice)
		return ok && NamedOf(sl.Elem()) == refNamed
	}
	var removed ssa.Value
	for _, a := range rm.c.Args() {
		if g.wrappedStore(g.node(a)) == "" && isRefSlice(a.Type()) {
			removed = a
		}
	}
	construct := fk + "#" + rm.store + ".RemoveBlobs#deletes-only-what-it-packs"
	if removed == nil || enc == nil {
		r.Undecided(rule, construct, site, "cannot identify the list of removed refs / the encryption of the packed blob")
		return
	}
	ro, ok := g.roles()
	if !ok {
		r.Undecided(rule, construct, site, "cannot identify the plaintext parameter of the encrypt helper")
		return
	}
	dPrm, _ := originValue(removed).(*ssa.Parameter)
	if dPrm == nil || dPrm.Parent() != fn {
		r.Undecided(rule, construct, site, "the list of removed refs is not a parameter of "+shortFn(fn)+": cannot relate it to what the callers packed")
		return
	}
	plainBuf := enc.Call.Args[ro.encPlainIdx]
	di, pi := -1, -1
	nP := 0
	for i, prm := range fn.Params {
		if prm == dPrm {
			di = i
			continue
		}
		if isRefSlice(prm.Type()) && g.flows(prm, plainBuf, c11AllKinds) {
			pi = i
			nP++
		}
	}
	if nP != 1 || di < 0 {
		r.Violation(rule, construct, site, fmt.Sprintf("%d ref-list parameters of %s (other than the removed list) flow into the plaintext of the packed meta blob, want exactly 1: the packed blob is not built from the rows handed in with the list of blobs to delete", nP, shortFn(fn)))
		return
	}
	if g.flows(dPrm, plainBuf, c11FwdKinds) {
		r.Undecided(rule, construct, site, "the removed refs also flow into the packed plaintext: cannot tell the two lists apart")
		return
	}
	// call sites
	var sites []CallSite
	for _, f := range g.fns {
		for _, c := range CallsIn(f, false) {
			if c.Callee() == fn && len(c.Args()) == len(fn.Params) {
				sites = append(sites, c)
			}
		}
	}
	if len(sites) == 0 || len(p.FuncValueUses(fn)) > 0 || token.IsExported(fn.Name()) {
		r.Undecided(rule, construct, site, shortFn(fn)+" has no call site in the package or can be called from elsewhere: the pairing of its two lists cannot be checked")
		return
	}
	r.OK(rule, construct, site, fmt.Sprintf("removes exactly parameter %s; the packed plaintext is fed from parameter %s; their pairing is checked at the %d call sites", dPrm.Name(), fn.Params[pi].Name(), len(sites)))
	n := map[*ssa.Function]int{}
	for _, cs := range sites {
		n[cs.Fn]++
		ck := fmt.Sprintf("%s#call:%s[%d]#lists-in-lock-step", FuncKey(cs.Fn), shortFn(fn), n[cs.Fn])
		ok, why := c11LockStep(cs.Args()[pi], cs.Args()[di], map[[2]ssa.Value]bool{})
		switch {
		case ok:
			r.OK(rule, ck, p.Pos(cs.Pos()), "the rows to pack and the meta blobs to delete are accumulated in lock-step from the same records (one append each per record in the same block, reset together)")
		case strings.HasPrefix(why, "?"):
			r.Undecided(rule, ck, p.Pos(cs.Pos()), "cannot follow how the rows to pack and the meta blobs to delete are built ("+why[1:]+")")
		default:
			r.Violation(rule, ck, p.Pos(cs.Pos()), "the list of meta blobs to delete is not built in lock-step with the rows to pack ("+why+"): a small meta blob whose rows are not in the packed blob is deleted after the upload, its rows exist nowhere in the meta store any more and are lost with the index")
		}
	}
}

// c11LockStep: see c11CompactCoverage. A reason starting with "?" means the shape
// is not understood (undecided) rather than wrong.
func c11LockStep(a, b ssa.Value, assumed map[[2]ssa.Value]bool) (bool, string) {
	if IsNilConst(a) && IsNilConst(b) {
		return true, ""
	}
	key := [2]ssa.Value{a, b}
	if assumed[key] {
		return true, ""
	}
	pa, aPhi := a.(*ssa.Phi)
	pb, bPhi := b.(*ssa.Phi)
	if aPhi && bPhi {
		if pa.Block() != pb.Block() || len(pa.Edges) != len(pb.Edges) {
			return false, "the two lists are merged at different points"
		}
		assumed[key] = true
		for i := range pa.Edges {
			if ok, why := c11LockStep(pa.Edges[i], pb.Edges[i], assumed); !ok {
				return false, why
			}
		}
		return true, ""
	}
	baseA, elA, okA := c11AppendOf(a)
	baseB, elB, okB := c11AppendOf(b)
	if okA && okB {
		if a.(*ssa.Call).Block() != b.(*ssa.Call).Block() {
			return false, "the two appends are not executed together (different blocks)"
		}
		xa, fa, ok1 := c11FieldSource(elA)
		xb, fb, ok2 := c11FieldSource(elB)
		if !ok1 || !ok2 {
			return false, "?an appended element is not a field of a record"
		}
		if !sameOrigin(xa, xb) {
			return false, "the rows and the ref to delete are taken from different records"
		}
		if fa == fb {
			return false, "?both lists are fed from the same field"
		}
		return c11LockStep(baseA, baseB, assumed)
	}
	if IsNilConst(a) != IsNilConst(b) {
		return false, "one list is reset while the other keeps its entries"
	}
	if aPhi != bPhi || okA != okB {
		return false, "one list is extended or merged where the other is not"
	}
	return false, "?unrecognised construction of the lists"
}

func c11AppendOf(v ssa.Value) (base, elems ssa.Value, ok bool) {
	call, isCall := v.(*ssa.Call)
	if !isCall {
		return nil, nil, false
	}
	if bi, isBi := call.Call.Value.(*ssa.Builtin); !isBi || bi.Name() != "append" || len(call.Call.Args) != 2 {
		return nil, nil, false
	}
	return call.Call.Args[0], call.Call.Args[1], true
}

// c11FieldSource: v is the load of field f of record x, or a one-element
// variadic slice holding such a load.
func c11FieldSource(v ssa.Value) (x ssa.Value, f int, ok bool) {
	if sl, isSl := v.(*ssa.Slice); isSl {
		al, isAl := sl.X.(*ssa.Alloc)
		if !isAl {
			return nil, 0, false
		}
		var vals []ssa.Value
		for _, in := range c11WritesInto(al) {
			st, isSt := in.(*ssa.Store)
			if !isSt {
				return nil, 0, false
			}
			vals = append(vals, st.Val)
		}
		if len(vals) != 1 {
			return nil, 0, false
		}
		v = vals[0]
	}
	ld, isLd := v.(*ssa.UnOp)
	if !isLd || ld.Op != token.MUL {
		if fv, isF := v.(*ssa.Field); isF {
			return fv.X, fv.Field, true
		}
		return nil, 0, false
	}
	fa, isFA := ld.X.(*ssa.FieldAddr)
	if !isFA {
		return nil, 0, false
	}
	return fa.X, fa.Field, true
}
