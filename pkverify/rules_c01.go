package main

import (
	"fmt"
	"go/token"
	"go/types"
	"sort"
	"strings"

	"golang.org/x/tools/go/ssa"
)

func init() {
	register(&PropSpec{
		ID:    "C01",
		Title: "Every storage backend behaves as a content-addressed map",
		Explanation: "Decided (structural necessary conditions, all over the type-checked SSA of the current tree): " +
			"E-close — every declared EnumerateBlobs/StreamBlobs method of every implementer of blobserver.BlobEnumerator/BlobStreamer (and every function such a method hands its channel to) reaches every non-panic exit with dest closed exactly once: by close, a registered defer, a deferred/spawned literal that closes on all its paths, or by handing dest to a callee that is itself checked (interface EnumerateBlobs/StreamBlobs calls discharge by contract because every implementer is in the instance set); no path closes twice. " +
			"E-cursor — for the backends C01 names plus the index: a leaf enumerator skips, within the same loop iteration, every element whose key compares <= the cursor (or == when the iterator was positioned by an inclusive sorted.KeyValue.Find on the cursor); a merging enumerator forwards the cursor to every sub-enumeration; a forwarding enumerator passes the cursor unchanged. " +
			"E-limit — a leaf/merging enumerator has a comparison between a send counter and limit (or a decremented limit and 0) whose stop edge reaches no further send, that is re-evaluated in the loop of the send, stops at count >= limit (not limit+1), and whose counter is updated on the path of the send; forwarders pass limit unchanged. " +
			"S-route — in shard every read index into shardStorage.shards is computed by shardNum, shardNum is a function of the ref and the shard count only, each shard() caller passes the same ref to the chosen shard, and batchedShards files each ref under shardNum(ref) and hands each shard exactly the list filed under its own index. " +
			"O-tomb — overlay: a nil-error ReceiveBlob implies upper.ReceiveBlob succeeded and, when a tombstone store exists, the tombstone of the same ref was deleted successfully; a nil-error RemoveBlobs implies a committed batch that Sets every ref; Fetch, StatBlobs and EnumerateBlobs yield only under isDeleted == false for the ref yielded; isDeleted answers true only on a successful Get of the ref's key; all tombstone keys are Ref.String() of the ref. " +
			"M-dedup — mergedEnumerate: the discard predicate compares against lastSent with both == and Less, Take() happens only under that predicate being true for the peeked ref of the same peeker, the filter precedes the selection of the candidate from the same peeker in every iteration over all peekers, and lastSent is assigned the sent ref on the send edge of the select. " +
			"NOT decided: byte-for-byte equality of fetched data, size correctness, that a leaf emits keys in ascending order, that the bypass conditions around the cursor guard (first-iteration flags, after != \"\") are right, cursor semantics of cloud back ends (s3, gcs, azure, mongo, remote: E-close only), duplicate-receive no-op, any statement about histories, compositions or paging completeness. Those need execution.",
		RuleDocs: map[string]string{
			"E-close":  "every declared EnumerateBlobs/StreamBlobs method (exhaustive over implementers) + every static callee that receives dest: dest is closed exactly once on every path to every non-panic exit (close, defer, literal that closes, or delegation to a checked callee)",
			"E-cursor": "enumerators of the C01 backends + index + the merged-enumerate helpers: leaf: each send is skipped in-iteration on the key<=cursor (or key==cursor after Find(cursor)) edge of a comparison against a value built only from `after`; merge: cursor forwarded to all sub-enumerations; forwarder: cursor passed unchanged",
			"E-limit":  "same instance set: leaf/merge: a counter-vs-limit comparison with a stop edge that reaches no send, in the send's loop, polarity count>=limit, counter updated on the send path; forwarder: limit passed unchanged",
			"S-route":  "shard: every read index of shardStorage.shards depends on shardNum; shardNum depends only on the ref and len(shards); shard(b) callers pass b on; batchedShards files refs under shardNum(ref) and pairs shards[k] with m[k]",
			"O-tomb":   "overlay: nil-error ReceiveBlob dominated by upper.ReceiveBlob ok and (deleted!=nil => deleted.Delete(ref) ok); nil-error RemoveBlobs = CommitBatch of a batch that Sets each ref; reads gated by isDeleted==false; isDeleted true only on Get ok; key agreement Ref.String()",
			"M-dedup":  "mergedEnumerate: discard predicate has == and Less against lastSent; Take only under predicate true on the same peeker; filter before candidate selection; lastSent stored on the send edge",
		},
		Run:       runC01,
		DesignRef: "DESIGN.md §4 C01",
		Technique: "static analysis: CFG path typestate (channel closed exactly once, inter-procedural by summaries), in-iteration skip-edge reachability for cursor guards, control dependence of sends on limit comparisons, dominance/err==nil-edge rules for tombstones, value-dependence for shard routing",
		LevelText: "Decides structural necessary conditions only: enumeration channels are always closed exactly once; the named backends' enumerators contain an exclusive cursor guard and a limit bound wired to the send loop; shard routing is one function of the ref; overlay tombstones are written/cleared before success is reported and consulted before yielding; merged enumeration suppresses duplicates against the last sent ref. Does not decide map semantics for any history, byte equality, sortedness of leaf output, paging completeness or compositions (level 'other').",
	})
}

func runC01(p *Program, r *Reporter) {
	ruleEClose(p, r, "E-close")
	insts := c01ScopeInstances(p)
	ruleC01Cursor(p, r, insts)
	ruleC01Limit(p, r, insts)
	ruleC01SRoute(p, r)
	ruleC01OTomb(p, r)
	ruleC01MDedup(p, r)
}

// ===========================================================================
// Enumerator discovery (by role: implementers of the two interfaces)

type c01Enum struct {
	Fn    *ssa.Function
	Kind  string // "EnumerateBlobs" or "StreamBlobs"
	Dest  *ssa.Parameter
	After *ssa.Parameter // EnumerateBlobs only
	Limit *ssa.Parameter // EnumerateBlobs only
}

// c01DeclaredMethod returns the method name declared on n itself (value or
// pointer receiver), nil when it is only promoted from an embedded field.
func c01DeclaredMethod(p *Program, n *types.Named, name string) *ssa.Function {
	for i := 0; i < n.NumMethods(); i++ {
		if m := n.Method(i); m.Name() == name {
			return p.SSA.FuncValue(m)
		}
	}
	return nil
}

func c01IsSendChan(t types.Type) bool {
	ch, ok := t.Underlying().(*types.Chan)
	return ok && ch.Dir() == types.SendOnly
}

func c01IsBasic(t types.Type, k types.BasicKind) bool {
	b, ok := t.Underlying().(*types.Basic)
	return ok && b.Kind() == k
}

// c01FamilyIdx finds, in a signature, the positions of a send-only channel
// parameter, the first string parameter after it and the first int parameter
// after that (the EnumerateBlobs shape). Indices are into sig.Params().
func c01FamilyIdx(sig *types.Signature) (ch, after, limit int, ok bool) {
	ch, after, limit = -1, -1, -1
	ps := sig.Params()
	for i := 0; i < ps.Len(); i++ {
		t := ps.At(i).Type()
		switch {
		case ch < 0 && c01IsSendChan(t):
			ch = i
		case ch >= 0 && after < 0 && c01IsBasic(t, types.String):
			after = i
		case after >= 0 && limit < 0 && c01IsBasic(t, types.Int):
			limit = i
		}
	}
	return ch, after, limit, ch >= 0 && after >= 0 && limit >= 0
}

func c01Enumerators(p *Program) []c01Enum {
	var out []c01Enum
	for _, spec := range [][2]string{{"BlobEnumerator", "EnumerateBlobs"}, {"BlobStreamer", "StreamBlobs"}} {
		it := p.Iface("pkg/blobserver", spec[0])
		for _, n := range p.Implementers(it, false) {
			fn := c01DeclaredMethod(p, n, spec[1])
			if fn == nil || fn.Blocks == nil {
				continue // promoted from an embedded implementer, which is itself enumerated
			}
			e := c01Enum{Fn: fn, Kind: spec[1]}
			off := len(fn.Params) - fn.Signature.Params().Len() // 1 for the receiver
			if spec[1] == "EnumerateBlobs" {
				ci, ai, li, ok := c01FamilyIdx(fn.Signature)
				if !ok {
					brokenf("anchor unresolved: %s does not have the (chan<-, string, int) shape", FuncKey(fn))
				}
				e.Dest, e.After, e.Limit = fn.Params[ci+off], fn.Params[ai+off], fn.Params[li+off]
			} else {
				for _, prm := range fn.Params[off:] {
					if c01IsSendChan(prm.Type()) {
						e.Dest = prm
						break
					}
				}
				if e.Dest == nil {
					brokenf("anchor unresolved: %s has no send-only channel parameter", FuncKey(fn))
				}
			}
			out = append(out, e)
		}
	}
	sort.Slice(out, func(i, j int) bool { return FuncKey(out[i].Fn) < FuncKey(out[j].Fn) })
	return out
}

// c01Same returns a predicate "v denotes root" that works in root's function
// and in every literal nested in it (spills and captures are seen through).
func c01Same(root ssa.Value) func(ssa.Value) bool {
	return func(v ssa.Value) bool {
		return v != nil && (v == root || originValue(v) == root)
	}
}

// ===========================================================================
// E-close (shared with C13 as G-enum)

type c01CloseSum struct {
	done      bool
	events    int      // close / delegation / undecided events anywhere in the function
	leaks     []string // exits reached with the channel still open
	doubles   []string // events reached with the channel already closed
	undecided []string
	leakPos   token.Pos
	usedHint  bool // an exception's assumption pruned a branch
}

func (s *c01CloseSum) always() bool {
	return s.done && s.events > 0 && len(s.leaks) == 0 && len(s.doubles) == 0 && len(s.undecided) == 0
}
func (s *c01CloseSum) never() bool { return s.done && s.events == 0 }

type c01CloseKey struct {
	fn   *ssa.Function
	root ssa.Value
}

type c01Closer struct {
	p         *Program
	memo      map[c01CloseKey]*c01CloseSum
	delegates []c01CloseKey // static callees that received the channel and act on it
	seenDeleg map[*ssa.Function]bool
	enumIface *types.Interface
	strmIface *types.Interface
	assume    map[*ssa.Function]func(ssa.Value) (bool, bool)
}

const (
	c01EvNone = iota
	c01EvClose
	c01EvUndecided
)

func (cl *c01Closer) line(pos token.Pos) int { return cl.p.Fset.Position(pos).Line }

// event classifies one instruction with respect to the channel.
func (cl *c01Closer) event(in ssa.Instruction, root ssa.Value) (int, string) {
	is := c01Same(root)
	ci, ok := in.(ssa.CallInstruction)
	if !ok {
		return c01EvNone, ""
	}
	c := CallSite{in.Parent(), ci}
	cc := c.Common()
	if b, ok := cc.Value.(*ssa.Builtin); ok {
		if b.Name() == "close" && len(cc.Args) == 1 && is(cc.Args[0]) {
			if c.IsDefer() {
				return c01EvClose, "defer close"
			}
			return c01EvClose, "close"
		}
		return c01EvNone, ""
	}
	// the channel handed over as an argument
	for i, a := range c.Args() {
		if !is(a) {
			continue
		}
		if cc.IsInvoke() {
			if (cc.Method.Name() == "EnumerateBlobs" && types.Implements(cc.Value.Type(), cl.enumIface)) ||
				(cc.Method.Name() == "StreamBlobs" && types.Implements(cc.Value.Type(), cl.strmIface)) {
				return c01EvClose, "delegated to " + c.CalleeKey() + " (every implementer is checked)"
			}
			return c01EvUndecided, fmt.Sprintf("channel passed to interface method %s at line %d, whose implementations are not in the instance set", c.CalleeKey(), cl.line(c.Pos()))
		}
		callee := c.Callee()
		if callee == nil {
			return c01EvUndecided, fmt.Sprintf("channel passed to a dynamic call at line %d", cl.line(c.Pos()))
		}
		if callee.Blocks == nil || i >= len(callee.Params) || !(InModule(callee) || callee.Parent() != nil) {
			return c01EvUndecided, fmt.Sprintf("channel passed to %s (no source) at line %d", c.CalleeKey(), cl.line(c.Pos()))
		}
		sum := cl.analyse(callee, callee.Params[i])
		if !sum.done {
			return c01EvUndecided, fmt.Sprintf("recursive hand-over of the channel through %s", FuncKey(callee))
		}
		if sum.never() {
			return c01EvNone, ""
		}
		if callee.Parent() == nil && !cl.seenDeleg[callee] {
			cl.seenDeleg[callee] = true
			cl.delegates = append(cl.delegates, c01CloseKey{callee, callee.Params[i]})
		}
		// the callee is reported on its own; here the obligation has moved
		return c01EvClose, "delegated to " + FuncKey(callee)
	}
	// literals: deferred, spawned or called here (they run: the obligation can move into
	// them); literals passed as callbacks to other calls must not touch the channel's state
	var lits []*ssa.Function
	transfer := false
	if l := ClosureOf(c); l != nil {
		lits, transfer = []*ssa.Function{l}, true
	} else if isSpawner(c) {
		lits, transfer = FuncArgClosures(c), true
	} else {
		lits = FuncArgClosures(c)
	}
	for _, l := range lits {
		sum := cl.analyse(l, root)
		switch {
		case !sum.done:
			return c01EvUndecided, "recursive literal"
		case sum.never():
			continue
		case sum.always() && transfer:
			return c01EvClose, "literal " + FuncKey(l) + " closes on all its paths"
		default:
			return c01EvUndecided, fmt.Sprintf("function literal %s (line %d) closes the channel on some paths only, or is a callback that closes it", FuncKey(l), cl.line(l.Pos()))
		}
	}
	return c01EvNone, ""
}

// escapes reports uses of the channel the typestate cannot follow.
func (cl *c01Closer) escapes(fn *ssa.Function, root ssa.Value) []string {
	is := c01Same(root)
	var out []string
	for _, b := range fn.Blocks {
		for _, in := range b.Instrs {
			switch x := in.(type) {
			case *ssa.Store:
				if !is(x.Val) {
					continue
				}
				if _, isVar := x.Addr.(*ssa.Alloc); isVar {
					continue // parameter spill / local variable
				}
				fa, ok := x.Addr.(*ssa.FieldAddr)
				carrier, isLocal := (ssa.Value)(nil), false
				if ok {
					carrier = fa.X
					_, isLocal = fa.X.(*ssa.Alloc)
				}
				if !isLocal {
					out = append(out, fmt.Sprintf("channel stored to a non-local location at line %d", cl.line(x.Pos())))
					continue
				}
				// a local struct carrying the channel: every function it is passed to must not close channel fields
				for _, c := range CallsIn(fn, false) {
					for ai, a := range c.Args() {
						ld, isLoad := a.(*ssa.UnOp)
						if !(a == carrier || isLoad && ld.Op == token.MUL && ld.X == carrier) {
							continue
						}
						callee := c.Callee()
						if callee == nil || callee.Blocks == nil || ai >= len(callee.Params) {
							out = append(out, fmt.Sprintf("struct carrying the channel passed to an unresolvable call at line %d", cl.line(c.Pos())))
							continue
						}
						if c01ClosesCarriedChan(callee, callee.Params[ai]) {
							out = append(out, fmt.Sprintf("%s closes a channel field of the struct that carries dest; ownership through struct fields is not followed", FuncKey(callee)))
						}
					}
				}
			case *ssa.Send:
				if is(x.X) {
					out = append(out, fmt.Sprintf("channel itself sent over another channel at line %d", cl.line(x.Pos())))
				}
			case *ssa.Return:
				for _, rv := range x.Results {
					if is(rv) {
						out = append(out, "channel returned to the caller")
					}
				}
			}
		}
	}
	return out
}

// c01ClosesCarriedChan: does fn (deep) close a channel read from a field of prm?
func c01ClosesCarriedChan(fn *ssa.Function, prm *ssa.Parameter) bool {
	found := false
	for _, c := range CallsIn(fn, true) {
		b, ok := c.Common().Value.(*ssa.Builtin)
		if !ok || b.Name() != "close" {
			continue
		}
		if DependsOn(c.Common().Args[0], func(v ssa.Value) bool { return v == ssa.Value(prm) }) {
			found = true
		}
	}
	return found
}

// analyse computes the close summary of fn for the channel root (a parameter
// of fn, or - for literals - a value of an enclosing function).
func (cl *c01Closer) analyse(fn *ssa.Function, root ssa.Value) *c01CloseSum {
	key := c01CloseKey{fn, root}
	if s, ok := cl.memo[key]; ok {
		return s
	}
	sum := &c01CloseSum{}
	cl.memo[key] = sum
	if len(fn.Blocks) == 0 {
		sum.done = true
		return sum
	}
	// classify every instruction once
	type ev struct {
		kind int
		what string
	}
	evs := map[ssa.Instruction]ev{}
	for _, b := range fn.Blocks {
		if b == fn.Recover {
			continue
		}
		for _, in := range b.Instrs {
			k, w := cl.event(in, root)
			if k != c01EvNone {
				evs[in] = ev{k, w}
				sum.events++
				if k == c01EvUndecided {
					sum.undecided = append(sum.undecided, w)
				}
			}
		}
	}
	if esc := cl.escapes(fn, root); len(esc) > 0 {
		sum.events += len(esc)
		sum.undecided = append(sum.undecided, esc...)
	}
	// typestate over (block, closed?) with witness parents
	type node struct {
		b      *ssa.BasicBlock
		closed bool
	}
	parent := map[node]node{}
	seen := map[node]bool{}
	start := node{fn.Blocks[0], false}
	seen[start] = true
	work := []node{start}
	pathOf := func(n node) string {
		var bs []*ssa.BasicBlock
		for cur := n; ; {
			bs = append(bs, cur.b)
			p, ok := parent[cur]
			if !ok {
				break
			}
			cur = p
		}
		for i, j := 0, len(bs)-1; i < j; i, j = i+1, j-1 {
			bs[i], bs[j] = bs[j], bs[i]
		}
		return blockNames(bs)
	}
	assume := cl.assume[fn]
	dblSeen := map[ssa.Instruction]bool{}
	for len(work) > 0 {
		n := work[len(work)-1]
		work = work[:len(work)-1]
		closed := n.closed
		var succs []*ssa.BasicBlock
		stop := false
		for _, in := range n.b.Instrs {
			if e, ok := evs[in]; ok && e.kind == c01EvClose {
				if closed && !dblSeen[in] {
					dblSeen[in] = true
					sum.doubles = append(sum.doubles, fmt.Sprintf("%s at line %d is reached with the channel already closed (or a close already deferred) via blocks %s: close of closed channel panics", e.what, cl.line(in.Pos()), pathOf(n)))
				}
				closed = true
			}
			switch t := in.(type) {
			case *ssa.Return:
				if !closed {
					if sum.leakPos == token.NoPos {
						sum.leakPos = t.Pos()
					}
					sum.leaks = append(sum.leaks, fmt.Sprintf("return at line %d reached via blocks %s without closing the channel", cl.line(t.Pos()), pathOf(n)))
				}
				stop = true
			case *ssa.Panic:
				stop = true
			case *ssa.If:
				if assume != nil {
					if known, val := assume(t.Cond); known {
						sum.usedHint = true
						if val {
							succs = []*ssa.BasicBlock{n.b.Succs[0]}
						} else {
							succs = []*ssa.BasicBlock{n.b.Succs[1]}
						}
					}
				}
			}
		}
		if stop {
			continue
		}
		if succs == nil {
			succs = n.b.Succs
		}
		for _, s := range succs {
			nn := node{s, closed}
			if !seen[nn] {
				seen[nn] = true
				parent[nn] = n
				work = append(work, nn)
			}
		}
	}
	sum.done = true
	return sum
}

// c01CloseException: one symbol + one reason; the reason is re-checked structurally.
type c01CloseException struct {
	pkg, typ, field string // the receiver field assumed non-nil
	ctorCall        string // interface method whose successful result is the only thing ever stored there
	reason          string
}

var c01CloseExceptions = map[string]c01CloseException{
	"pkg/blobserver/cond.(*condStorage).EnumerateBlobs": {
		pkg: "pkg/blobserver/cond", typ: "condStorage", field: "read", ctorCall: "GetStorage",
		reason: "the exit taken when sto.read == nil is infeasible: every condStorage is built by a function that stores Loader.GetStorage's result into .read and returns the object only on that call's err == nil edge",
	},
}

// c01FieldAlwaysSet re-checks the exception's reason: every allocation of the
// struct happens in a function that stores result 0 of an invoke of ctorCall
// into the field and returns the object only where that call succeeded; there
// is no other store to the field anywhere in the module.
func c01FieldAlwaysSet(p *Program, ex c01CloseException) (bool, string) {
	named := p.NamedType(ex.pkg, ex.typ)
	isField := func(fa *ssa.FieldAddr) bool {
		n := NamedOf(fa.X.Type())
		return n != nil && n.Obj() == named.Obj() && fieldName(fa.X.Type(), fa.Field) == ex.field
	}
	allocs := 0
	for _, fn := range p.AllFuncs {
		var objs []*ssa.Alloc
		for _, b := range fn.Blocks {
			for _, in := range b.Instrs {
				switch x := in.(type) {
				case *ssa.Alloc:
					if pt, ok := x.Type().(*types.Pointer); ok {
						if n, ok := pt.Elem().(*types.Named); ok && n.Obj() == named.Obj() {
							objs = append(objs, x)
						}
					}
				case *ssa.Store:
					if fa, ok := x.Addr.(*ssa.FieldAddr); ok && isField(fa) {
						call, _ := originValue(x.Val).(*ssa.Extract)
						var cv *ssa.Call
						if call != nil && call.Index == 0 {
							cv, _ = call.Tuple.(*ssa.Call)
						}
						if cv == nil || !cv.Call.IsInvoke() || cv.Call.Method.Name() != ex.ctorCall {
							return false, fmt.Sprintf("%s stores something other than a %s result into %s.%s", FuncKey(fn), ex.ctorCall, ex.typ, ex.field)
						}
					}
				}
			}
		}
		for _, obj := range objs {
			allocs++
			// the call whose result is stored into obj.field
			var ctor *ssa.Call
			for _, b := range fn.Blocks {
				for _, in := range b.Instrs {
					st, ok := in.(*ssa.Store)
					if !ok {
						continue
					}
					fa, ok := st.Addr.(*ssa.FieldAddr)
					if !ok || !isField(fa) || originValue(fa.X) != ssa.Value(obj) && fa.X != ssa.Value(obj) {
						continue
					}
					if xt, ok := originValue(st.Val).(*ssa.Extract); ok {
						ctor, _ = xt.Tuple.(*ssa.Call)
					}
				}
			}
			for _, ri := range Returns(fn) {
				for _, rv := range ri.Results {
					if originValue(rv) != ssa.Value(obj) {
						continue
					}
					if ctor == nil {
						return false, fmt.Sprintf("%s returns a %s whose .%s is never set", FuncKey(fn), ex.typ, ex.field)
					}
					if ok, why := SuccessDominates(ctor, ri.Ret); !ok {
						return false, fmt.Sprintf("%s returns a %s on a path where %s did not succeed (%s)", FuncKey(fn), ex.typ, ex.ctorCall, why)
					}
				}
			}
		}
	}
	if allocs == 0 {
		return false, "no allocation site of " + ex.typ + " found"
	}
	return true, ""
}

func ruleEClose(p *Program, r *Reporter, as string) {
	cl := &c01Closer{
		p: p, memo: map[c01CloseKey]*c01CloseSum{}, seenDeleg: map[*ssa.Function]bool{},
		enumIface: p.Iface("pkg/blobserver", "BlobEnumerator"),
		strmIface: p.Iface("pkg/blobserver", "BlobStreamer"),
		assume:    map[*ssa.Function]func(ssa.Value) (bool, bool){},
	}
	enums := c01Enumerators(p)
	// arm the (structurally re-checked) exceptions
	exNote := map[*ssa.Function]string{}
	for key, ex := range c01CloseExceptions {
		var fn *ssa.Function
		for _, e := range enums {
			if FuncKey(e.Fn) == key {
				fn = e.Fn
			}
		}
		if fn == nil {
			continue // the excepted function no longer exists: nothing to except
		}
		if ok, why := c01FieldAlwaysSet(p, ex); !ok {
			exNote[fn] = "exception not applied, its reason no longer holds: " + why
			continue
		}
		ex := ex
		recv := fn.Params[0]
		cl.assume[fn] = func(cond ssa.Value) (bool, bool) {
			bo, ok := cond.(*ssa.BinOp)
			if !ok || (bo.Op != token.EQL && bo.Op != token.NEQ) {
				return false, false
			}
			var other ssa.Value
			if IsNilConst(bo.Y) {
				other = bo.X
			} else if IsNilConst(bo.X) {
				other = bo.Y
			} else {
				return false, false
			}
			ld, ok := other.(*ssa.UnOp)
			if !ok || ld.Op != token.MUL {
				return false, false
			}
			fa, ok := ld.X.(*ssa.FieldAddr)
			if !ok || originValue(fa.X) != ssa.Value(recv) || fieldName(fa.X.Type(), fa.Field) != ex.field {
				return false, false
			}
			return true, bo.Op == token.NEQ // field != nil is true, field == nil is false
		}
		exNote[fn] = "exception (re-checked): " + ex.reason
	}
	reported := map[*ssa.Function]bool{}
	report := func(fn *ssa.Function, root ssa.Value, role string) {
		if reported[fn] {
			return
		}
		reported[fn] = true
		sum := cl.analyse(fn, root)
		construct := FuncKey(fn) + "#close-dest"
		site := p.Pos(fn.Pos())
		switch {
		case len(sum.undecided) > 0:
			r.Undecided(as, construct, site, role+": "+strings.Join(sum.undecided, "; "))
		case len(sum.leaks) > 0:
			d := fmt.Sprintf("%s: %d exit(s) leave the channel open, so a consumer ranging over it blocks forever: %s", role, len(sum.leaks), strings.Join(c01First(sum.leaks, 3), "; "))
			if n := exNote[fn]; n != "" {
				d += " [" + n + "]"
			}
			r.Violation(as, construct, p.Pos(sum.leakPos), d)
		case len(sum.doubles) > 0:
			r.Violation(as, construct, site, role+": "+strings.Join(c01First(sum.doubles, 3), "; "))
		case sum.events == 0:
			r.Violation(as, construct, site, role+": the channel is never closed nor handed to a function that closes it")
		default:
			d := role + ": channel closed exactly once (close, defer, closing literal or checked delegate) on every path to every non-panic exit"
			if sum.usedHint {
				d += "; " + exNote[fn]
			}
			r.OK(as, construct, site, d)
		}
	}
	for _, e := range enums {
		report(e.Fn, e.Dest, "implements "+e.Kind)
	}
	for i := 0; i < len(cl.delegates); i++ {
		d := cl.delegates[i]
		report(d.fn, d.root, "receives the channel from an enumerator")
	}
	r.Analysed("enumerator_methods", len(enums))
	r.Analysed("close_delegates", len(cl.delegates))
	r.Floor(as, 33)
}

func c01First(s []string, n int) []string {
	if len(s) > n {
		return s[:n]
	}
	return s
}

// ---- temporary stubs ----
type c01Inst struct{}

func c01ScopeInstances(p *Program) []c01Inst                { return nil }
func ruleC01Cursor(p *Program, r *Reporter, in []c01Inst) {}
func ruleC01Limit(p *Program, r *Reporter, in []c01Inst)  {}
func ruleC01SRoute(p *Program, r *Reporter)               {}
func ruleC01OTomb(p *Program, r *Reporter)                {}
func ruleC01MDedup(p *Program, r *Reporter)               {}
